#!/usr/bin/env python3
"""Regenerates /verif/MANIFEST.json from the table below (kept in one place so the manifest is always valid)."""
import json, os
HERE = os.path.dirname(os.path.dirname(os.path.abspath(__file__)))
PY = "/venv/bin/python"
TECH = "deterministic simulation with fault injection (seeded schedule/fault search, reference-model oracles, replayable records)"

CLAIMED = {
 "C10": dict(ref="DESIGN.md §3 C10", tq=900, tt=3300,
   text="Seeded simulation of fit/path on all 17 gradient-trained families, plain and mlcl-decorated: the simulator owns every epoch's batch permutation (faithful or adversarial) and the optimiser step (real/identity/scaled); at every BATCH event the delivered rows are identified and the affinity block is compared exactly with the rows/columns of the matrix the run computed; per epoch partition, per fit epoch/step counts, per path validation-block alignment. Sampling, not proof: a clean batch is evidence.",
   note="Trusted: numpy/scikit-learn, exact row matching of continuous data to identify samples, the simulator's own seams (instance-attribute wrappers). Not judged: correctness of the kernel itself (C11), completion of path() (C07)."),
}
PENDING = {}
NA = {
 "C01": "pure function (P, affinity) -> score: no schedule, clock, fault or history in the statement; deciding it is differential/property-based testing, a different technique",
 "C02": "derivative identity of the same pure function; nothing for a simulator to schedule or fault (C03's step oracle exercises it end-to-end as a by-product, not a claim)",
 "C04": "end-state relations of one fit as a function of (configuration, data); no dependence on histories, schedules or failure points",
 "C05": "pure function of (W, alpha, M, groups); (C06 uses an independent prox reference for the in-training threshold clause only)",
 "C11": "configuration-to-configuration forwarding, a pure mapping with no carried state",
 "C13": "algebraic invariances/bounds of a pure function",
 "C15": "pure function of (model parameters, X)",
 "C16": "a validation table to enumerate, not behaviour over time (failed fits appear as fault ops inside C12 histories where only history-independence is judged)",
 "C17": "numeric robustness over input families; pure function of the input",
 "C18": "no prediction path carries state between calls (checked), so call histories/faults have nothing to act on; what remains is an input-space relation",
 "C19": "print/parse round trip of a pure function of the fitted tree; the statement involves no stream faults",
 "C20": "statistical conformance of pure functions of (parameters, seed); needs hypothesis tests, not a simulator",
}

def main():
    checks = []
    for pid, c in sorted(CLAIMED.items()):
        checks.append({
            "property_id": pid,
            "quick_cmd": f"timeout {c['tq']} {PY} gemsim/cli.py check {pid} --tier quick",
            "thorough_cmd": f"timeout {c['tt']} {PY} gemsim/cli.py check {pid} --tier thorough",
            "evidence_file": f"/verif/evidence/{pid}.json",
            "replay_cmd_template": f"{PY} gemsim/cli.py replay {{path}}",
            "engine": "gemsim",
            "level_claimed": {"category": "exploration", "text": c["text"], "design_ref": c["ref"]},
            "level_note": c["note"],
            "technique": TECH,
        })
    na = [{"property_id": k, "reason": v} for k, v in sorted(NA.items())]
    for k, v in sorted(PENDING.items()):
        na.append({"property_id": k, "reason": "not claimed yet: " + v})
    m = {
        "version": 1,
        "setup_cmd": f"cd /verif && {PY} gemsim/cli.py setup",
        "hooks": {"guard": "GEMCLUS_VERIF", "enable": "none needed: every seam is an instance attribute, a module attribute looked up at call time, a constructor parameter or a class-level patch of scikit-learn's BaseOptimizer.update_params installed by the simulator; no source commit in /repo uses the guard",
                  "baseline_off_cmd": "python3 /verif/tools/baseline_check.py", "source_commits": [], "add_only": True},
        "engines": [{"name": "gemsim", "path": "/verif/gemsim", "serves_properties": sorted(CLAIMED),
                     "kind_free_text": "hand-written deterministic simulator (Python): one seeded PRNG per run decides configuration, data, op sequence, batch/feature-subset schedules and fault placement; event log with digest; explicit scenario records as replay files; ddmin minimisation"}],
        "checks": checks,
        "not_applicable": na,
        "notes": "Exit codes: 0 held / only KNOWN-FINDING lines; 1 VIOLATION (replay file under /verif/out); 2 HARNESS-ERROR (never a verdict). VERIF_SEED and VERIF_TIER honoured. Code under test is whatever GEMSIM_REPO (default /repo) holds: Python sources are imported from the working tree; the Cython extension cannot be regenerated offline (no Cython), see DESIGN.md §2.1/§7.",
    }
    json.dump(m, open(os.path.join(HERE, "MANIFEST.json"), "w"), indent=1)
    print("claimed", sorted(CLAIMED), "pending", sorted(PENDING), "n/a", len(NA))

if __name__ == "__main__":
    import sys
    sys.path.insert(0, os.path.dirname(__file__))
    try:
        from manifest_table import CLAIMED as C2, PENDING as P2
        CLAIMED, PENDING = C2, P2
    except ImportError:
        pass
    main()
