#!/usr/bin/env python3
"""Which source lines of /repo/gemclus do the scenarios execute?  (reach measure; single process, sys.settrace)
Usage: line_reach.py [runs_per_property]   -> prints never-executed executable lines per file"""
import ast, os, sys, collections
for k in ("OMP_NUM_THREADS", "OPENBLAS_NUM_THREADS"): os.environ[k] = "1"
sys.path.insert(0, "/verif"); sys.path.insert(0, os.environ.get("GEMSIM_REPO", "/repo"))
import warnings; warnings.simplefilter("ignore")
N = int(sys.argv[1]) if len(sys.argv) > 1 else 150
ROOT = os.path.realpath(os.path.join(os.environ.get("GEMSIM_REPO", "/repo"), "gemclus"))
hits = collections.defaultdict(set)
def tracer(frame, event, arg):
    fn = frame.f_code.co_filename
    if not fn.startswith(ROOT) or "/tests/" in fn:
        return None
    def local(frame, event, arg):
        if event == "line":
            hits[fn].add(frame.f_lineno)
        return local
    hits[fn].add(frame.f_lineno)
    return local
from gemsim import runner
import gemclus
sys.settrace(tracer)
for prop in sorted(runner.SCENARIOS):
    for i in range(N):
        rec = runner.generate_record(prop, 4242, i)
        runner.execute_record(prop, rec)
sys.settrace(None)
tot = miss = 0
for dirpath, _, files in os.walk(ROOT):
    if "/tests" in dirpath or "/data" in dirpath:
        continue
    for f in sorted(files):
        if not f.endswith(".py"):
            continue
        p = os.path.join(dirpath, f)
        tree = ast.parse(open(p).read())
        lines = set()
        for node in ast.walk(tree):
            if isinstance(node, ast.stmt) and not isinstance(node, (ast.FunctionDef, ast.ClassDef, ast.Import, ast.ImportFrom)):
                if isinstance(node, ast.Expr) and isinstance(getattr(node, "value", None), ast.Constant) and isinstance(node.value.value, str):
                    continue
                lines.add(node.lineno)
        never = sorted(l for l in lines if l not in hits.get(p, ()))
        # drop module/class-level lines (executed at import, before tracing)
        src = open(p).read().split("\n")
        never = [l for l in never if src[l - 1].startswith("        ") or src[l - 1].startswith("    ") and not src[l - 1].startswith("    _parameter") and "=" not in src[l - 1][:8]]
        tot += len(lines); miss += len(never)
        if never:
            print(f"== {os.path.relpath(p, ROOT)}: {len(never)} of {len(lines)} never executed")
            for l in never:
                print(f"   {l}: {src[l - 1].strip()[:110]}")
print(f"TOTAL executable statements {tot}, never executed {miss}")
