#!/usr/bin/env python3
"""Cross-attribution matrix: every seeded change (applied to a TEMP COPY of /repo/gemclus, selected with GEMSIM_REPO) against
every claimed property's check.  Writes /verif/seeded/cross_matrix.json.  Usage: cross_matrix.py [fraction_of_quick_budget] [workers]"""
import json, os, shutil, subprocess, sys, tempfile
sys.path.insert(0, "/verif")
from gemsim import selftest
from gemsim.runner import BUDGET
frac = float(sys.argv[1]) if len(sys.argv) > 1 else 0.25
workers = sys.argv[2] if len(sys.argv) > 2 else "6"
ROOT = "/verif/seeded"
props = sorted(BUDGET)
out = {}
if os.path.exists(os.path.join(ROOT, "cross_matrix.json")) and os.environ.get("CM_RESUME", "1") == "1":
    out = json.load(open(os.path.join(ROOT, "cross_matrix.json")))
ids = sorted(d for d in os.listdir(ROOT) if os.path.isdir(os.path.join(ROOT, d)))
for tag in ids:
    if tag in out:
        continue
    root = selftest.make_mutant_copy([])
    r = subprocess.run(["patch", "-p1", "-s", "-d", root, "-i", os.path.join(ROOT, tag, "patch.diff")], capture_output=True, text=True)
    if r.returncode != 0:
        print(tag, "patch failed", r.stdout, r.stderr)
        shutil.rmtree(root)
        continue
    row = {}
    for p in props:
        scratch = tempfile.mkdtemp(prefix="gemsim_cm_")
        env = dict(os.environ, GEMSIM_REPO=root, GEMSIM_SCRATCH=scratch)
        runs = str(max(300, int(BUDGET[p]["quick"] * frac)))
        rr = subprocess.run(["/venv/bin/python", "/verif/gemsim/cli.py", "check", p, "--runs", runs, "--no-shrink", "--workers", workers],
                            env=env, capture_output=True, text=True)
        classes = sorted({ln.split("class=")[1].split()[0] for ln in rr.stdout.splitlines() if ln.strip().startswith("class=")})
        harness = [ln[:200] for ln in rr.stdout.splitlines() if ln.startswith("HARNESS-ERROR")][:2]
        row[p] = {"rc": rr.returncode, "classes": classes[:6], "harness": harness}
        shutil.rmtree(scratch, ignore_errors=True)
    shutil.rmtree(root, ignore_errors=True)
    out[tag] = row
    print(tag, " ".join(f"{p}:{row[p]['rc']}" for p in props), flush=True)
    json.dump(out, open(os.path.join(ROOT, "cross_matrix.json"), "w"), indent=1)
