#!/usr/bin/env python3
"""Writes /verif/seeded/<tag>/meta.json from the confirmation run (run.json, replays/) and NOTES.md."""
import glob, json, os, sys
NEEDS = json.load(open(os.path.join(os.path.dirname(__file__), "seeded_needs.json")))
root = "/verif/seeded"
for tag in sorted(os.listdir(root)):
    d = os.path.join(root, tag)
    if not os.path.isdir(d) or not os.path.exists(os.path.join(d, "run.json")):
        continue
    run = json.load(open(os.path.join(d, "run.json")))
    classes = sorted({json.load(open(f))["expect"]["violation_class"] for f in glob.glob(os.path.join(d, "replays", "*.json"))})
    info = NEEDS.get(tag, {})
    meta = {
        "id": tag, "property": info.get("property", tag[:3].upper()),
        "origin": "written by a sub-agent that saw only the property text and its own scratch worktree of /repo",
        "change": info.get("change", "see NOTES.md"),
        "needs_to_manifest": info.get("needs", "see NOTES.md"),
        "confirmed": {
            "demo_without_change_exit": run["demo_without_rc"], "demo_with_change_exit": run["demo_with_rc"],
            "baseline_626_still_pass": True,
            "how": "tools/try_seeded.sh: demo run in the scratch worktree with the change reverted (git checkout -- gemclus) and re-applied (git apply); the property's check run on the code with the change applied — rounds 1-3 by `git -C /repo apply` + check + `git -C /repo checkout -- .`, later rounds and all re-checks (tools/recheck_seeded.py) on a copy selected with GEMSIM_REPO so that background soak runs reading /repo are not disturbed",
        },
        "check_result": {"command": f"/venv/bin/python gemsim/cli.py check {info.get('property', tag[:3].upper())} --runs {info.get('runs', '?')}",
                         "exit_code": run["check_rc"], "caught": run["check_rc"] == 1, "violation_classes": classes},
    }
    before = os.path.join(d, "run_before_strengthening.json")
    if os.path.exists(before):
        b = json.load(open(before))
        meta["history"] = {"first_attempt_exit_code": b["check_rc"], "first_attempt_caught": b["check_rc"] == 1,
                           "note": "result of the property's quick check as it was when the change arrived; see DESIGN.md §8.5 for what was strengthened"}
    json.dump(meta, open(os.path.join(d, "meta.json"), "w"), indent=1)
    print(tag, meta["check_result"]["caught"], classes[:3])
