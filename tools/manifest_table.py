"""Which properties are claimed right now (edited as checks come online); gen_manifest.py renders MANIFEST.json."""
CLAIMED = {
 "C10": dict(ref="DESIGN.md §3 C10", tq=900, tt=3300,
   text="Seeded simulation of fit/path on all 17 gradient-trained families, plain and mlcl-decorated: the simulator owns every epoch's batch permutation (faithful or adversarial) and the optimiser step (real/identity/scaled); at every BATCH event the delivered rows are identified and the affinity block is compared exactly with the rows/columns of the matrix the run computed; per epoch partition, per fit epoch/step counts, per path validation-block alignment. Sampling, not proof: a clean batch is evidence.",
   note="Trusted: numpy/scikit-learn, exact row matching of continuous data to identify samples, the simulator's own seams (instance-attribute wrappers). Not judged: correctness of the kernel itself (C11), completion of path() (C07)."),
}
PENDING = {k: "check under construction (DESIGN.md §3); will be claimed when its scenario is committed" for k in
           ["C03", "C06", "C07", "C08", "C09", "C12", "C14"]}
