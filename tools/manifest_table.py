"""Which properties are claimed right now (edited as checks come online); gen_manifest.py renders MANIFEST.json."""
CLAIMED = {
 "C10": dict(ref="DESIGN.md §3 C10", tq=900, tt=3300,
   text="Seeded simulation of fit/path on all 17 gradient-trained families, plain and mlcl-decorated: the simulator owns every epoch's batch permutation (faithful or adversarial) and the optimiser step (real/identity/scaled); at every BATCH event the delivered rows are identified and the affinity block is compared exactly with the rows/columns of the matrix the run computed; per epoch partition, per fit epoch/step counts, per path validation-block alignment. Sampling, not proof: a clean batch is evidence.",
   note="Trusted: numpy/scikit-learn, exact row matching of continuous data to identify samples, the simulator's own seams (instance-attribute wrappers). Not judged: correctness of the kernel itself (C11), completion of path() (C07)."),
 "C03": dict(ref="DESIGN.md §3 C03", tq=900, tt=3300,
   text="Seeded simulation of fit (and short paths) on all 17 gradient-trained families x 13 GEMINI names/instances x solvers x batch sizes, plain and mlcl-decorated, under simulator-owned batch schedules and a buggified optimiser (scaled steps, random teleports far from initialisation). At every judged optimiser step the directions handed to update_params are compared, coordinate by coordinate, with a Richardson-extrapolated central difference of an independent reference GEMINI composed with the model's own forward pass on the batch actually delivered, plus the mlcl term and minus the documented penalty. Numerical: errors under 2% of an array's largest gradient entry, saturated steps and kinks are not decided (counted in the evidence).",
   note="Trusted: the reference GEMINI definitions in gemsim/refs.py (cross-checked against the library's scores at run time), POT's emd2, the model's own _infer as the forward pass, finite differences with kink/saturation guards."),
}
PENDING = {k: "check under construction (DESIGN.md §3); will be claimed when its scenario is committed" for k in
           ["C06", "C07", "C08", "C09", "C12", "C14"]}
