#!/bin/bash
# Usage: try_seeded.sh <worktree> <tag> <PROP> [runs]
# 1. confirms the demonstration: PASS without the change, FAIL with it (inside the scratch worktree);
# 2. applies patch.diff to /repo, runs the property's check (and optionally others), and undoes it straight afterwards;
# 3. stores patch, demo and meta under /verif/seeded/<tag>/.
set -u
WT=$1; TAG=$2; PROP=$3; RUNS=${4:-}
OUT=/verif/seeded/$TAG
mkdir -p $OUT
cd $WT || exit 2
git diff -- gemclus > /tmp/seeded_$TAG.diff
if [ ! -s /tmp/seeded_$TAG.diff ]; then echo "no change in worktree"; exit 2; fi
DEMO=$(ls demo_*.py | head -1)
# (never `git stash`: the stash is shared by all worktrees of a repository)
git checkout -q -- gemclus
( /venv/bin/python $DEMO > /tmp/seeded_${TAG}_without.txt 2>&1 ); RC_WITHOUT=$?
git apply /tmp/seeded_$TAG.diff
( /venv/bin/python $DEMO > /tmp/seeded_${TAG}_with.txt 2>&1 ); RC_WITH=$?
echo "demo without change rc=$RC_WITHOUT ; with change rc=$RC_WITH"
cp /tmp/seeded_$TAG.diff $OUT/patch.diff
cp $DEMO $OUT/
[ -f NOTES.md ] && cp NOTES.md $OUT/NOTES.md
cd /verif
# The check runs against the scratch worktree itself (GEMSIM_REPO): it holds /repo's HEAD plus the change.  (Equivalent to
# `git -C /repo apply` + run + `git -C /repo checkout -- .`, without disturbing background soak runs that read /repo.)
ARGS=""; [ -n "$RUNS" ] && ARGS="--runs $RUNS"
GEMSIM_REPO=$WT GEMSIM_SCRATCH=/tmp/seeded_scratch_$TAG /venv/bin/python gemsim/cli.py check $PROP $ARGS > /tmp/seeded_${TAG}_check.txt 2>&1; RC_CHECK=$?
echo "check $PROP rc=$RC_CHECK"
grep -E "^VIOLATION|class=|HARNESS" /tmp/seeded_${TAG}_check.txt | head -12
mkdir -p $OUT/replays; cp /tmp/seeded_scratch_$TAG/out/*.json $OUT/replays/ 2>/dev/null
rm -rf /tmp/seeded_scratch_$TAG
echo "{\"demo_without_rc\": $RC_WITHOUT, \"demo_with_rc\": $RC_WITH, \"check_rc\": $RC_CHECK}" > $OUT/run.json
