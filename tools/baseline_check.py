#!/usr/bin/env python3
"""Run the repository's pinned baseline (guard OFF) and compare with /root/.vp/BASELINE.json stable_pass.
Exit 0 iff every stable-pass test still passes.  Usage: baseline_check.py [junit.xml to reuse]"""
import json, os, subprocess, sys, tempfile
import xml.etree.ElementTree as ET

def main():
    base = json.load(open("/root/.vp/BASELINE.json"))
    env = dict(os.environ)
    for k in list(env):
        if k.startswith("GEMCLUS_VERIF") or k.startswith("GEMSIM"):
            env.pop(k)
    if len(sys.argv) > 1:
        xml = sys.argv[1]
    else:
        d = tempfile.mkdtemp(prefix="gemsim_bl_")
        xml = os.path.join(d, "junit.xml")
        cmd = base["cmd"].replace("<file>", xml)
        subprocess.run(cmd, shell=True, env=env, stdout=subprocess.DEVNULL, stderr=subprocess.DEVNULL)
    passed = set()
    for tc in ET.parse(xml).getroot().iter("testcase"):
        if not any(ch.tag in ("failure", "error", "skipped") for ch in tc):
            passed.add(f"{tc.get('classname')}::{tc.get('name')}")
    missing = [t for t in base["stable_pass"] if t not in passed]
    print(f"baseline stable_pass={len(base['stable_pass'])} passed_now={len(passed)} missing={len(missing)}")
    for t in missing[:20]:
        print("MISSING", t)
    sys.exit(1 if missing else 0)

main()
