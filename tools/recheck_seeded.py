#!/usr/bin/env python3
"""Re-runs the quick check of each seeded change's property against /repo with the change applied (git apply) and undoes
it straight afterwards (git checkout -- .).  Updates seeded/<id>/run.json (check_rc) and replays/.  Usage: recheck_seeded.py [ids...]"""
import glob, json, os, shutil, subprocess, sys
ROOT = "/verif/seeded"
NEEDS = json.load(open("/verif/tools/seeded_needs.json"))
ids = sys.argv[1:] or sorted(d for d in os.listdir(ROOT) if os.path.isdir(os.path.join(ROOT, d)))
sys.path.insert(0, "/verif")
from gemsim import selftest
for tag in ids:
    d = os.path.join(ROOT, tag)
    info = NEEDS.get(tag, {})
    prop = info.get("property", "C" + tag[-2:])
    runs = str(info.get("runs", 6000))
    scratch = f"/tmp/seeded_scratch_{tag}"
    shutil.rmtree(scratch, ignore_errors=True)
    # a temp copy of /repo/gemclus with the change applied, selected through GEMSIM_REPO (same effect as git apply on
    # /repo followed by git checkout, without disturbing background runs that read /repo)
    root = selftest.make_mutant_copy([])
    subprocess.check_call(["patch", "-p1", "-s", "-d", root, "-i", os.path.join(d, "patch.diff")])
    try:
        env = dict(os.environ, GEMSIM_SCRATCH=scratch, GEMSIM_REPO=root)
        r = subprocess.run(["/venv/bin/python", "/verif/gemsim/cli.py", "check", prop, "--runs", runs], env=env, capture_output=True, text=True)
    finally:
        shutil.rmtree(root, ignore_errors=True)
    run = json.load(open(os.path.join(d, "run.json"))) if os.path.exists(os.path.join(d, "run.json")) else {}
    run["check_rc"] = r.returncode
    json.dump(run, open(os.path.join(d, "run.json"), "w"))
    shutil.rmtree(os.path.join(d, "replays"), ignore_errors=True)
    os.makedirs(os.path.join(d, "replays"), exist_ok=True)
    for f in glob.glob(os.path.join(scratch, "out", "*.json")):
        shutil.copy(f, os.path.join(d, "replays"))
    shutil.rmtree(scratch, ignore_errors=True)
    classes = sorted({ln.split("class=")[1].split()[0] for ln in r.stdout.splitlines() if ln.strip().startswith("class=")})
    print(f"{tag:8s} {prop} rc={r.returncode} caught={r.returncode == 1} classes={classes[:4]}")
