"""F11 (C06, known finding): a declared group is split when one of its features is an all-zero column.

Plain library code, no simulator.  Group [0, 1]; column 0 of the data is identically zero, so the gradient of row 0 of W_ is
exactly zero.  As soon as the proximal step has zeroed the group once and a later mini-batch step revives it, row 1 is
non-zero again and row 0 stays exactly zero: get_selection() reports feature 1 without feature 0, although the property says
"the features of a user-declared group are either all selected or all discarded".
Exit 1 when the group is split (the finding reproduces), 0 otherwise."""
import sys
import warnings

import numpy as np

warnings.filterwarnings("ignore")
from gemclus.sparse import SparseLinearMMD

seed = 3
rs = np.random.RandomState(seed)
X = rs.normal(size=(12, 4))
X[:, 0] = 0.0
m = SparseLinearMMD(n_clusters=2, groups=[[0, 1]], alpha=1.0, batch_size=4, max_iter=30, learning_rate=0.1, random_state=seed)
m.fit(X)
sel = set(m.get_selection().tolist())
print("selection", sorted(sel), "row norms", np.linalg.norm(m.W_, axis=1))
split = (0 in sel) != (1 in sel)
print("group [0, 1] split" if split else "group [0, 1] consistent")
sys.exit(1 if split else 0)
