"""Independent reference implementations used as oracles (none of them imports gemclus).

* ref_gemini: the documented generalised mutual information, straight from its definition.
* prox references (group lasso closed form; HIER-PROX by exact piecewise minimisation of the 1-D reduced problem).
* kernel-KMeans objective, brute-force enumeration of the admissible KAURI splits, tree-array interpreter.
* union-find model of the must-link / cannot-link validation rule."""
import itertools

import numpy as np


# --------------------------------------------------------------------------------------------------------------------
# GEMINI reference
# --------------------------------------------------------------------------------------------------------------------

def _dist(name, p, q, A, same=False):
    if name == "kl":
        return float(np.sum(p * np.log(p / q)))
    if name == "tv":
        return float(0.5 * np.sum(np.abs(p - q)))
    if name == "hellinger":
        return float(1 - np.sum(np.sqrt(p * q)))
    if name == "chi2":
        return float((np.sum((p - q) ** 2 / q) + 1) / 2)   # the library's fixed affine form
    if name == "mmd":
        d = p - q
        return float(np.sqrt(max(d @ A @ d, 0.0)))
    if name == "wasserstein":
        if same:
            return 0.0
        import ot
        return float(ot.emd2(np.ascontiguousarray(p), np.ascontiguousarray(q), np.ascontiguousarray(A, dtype=np.float64)))
    raise ValueError(name)


def ref_gemini(name, ovo, P, A):
    """p(y)-weighted average distance between the empirical cluster conditionals p(x_i|y=k) ∝ P[i,k] and the empirical
    data distribution (OvA), or between two independently drawn cluster conditionals (OvO, a==b pairs included)."""
    P = np.asarray(P, dtype=np.float64)
    n, K = P.shape
    pi = P.mean(0)
    C = P / P.sum(0, keepdims=True)
    px = np.ones(n) / n
    if not ovo:
        return sum(pi[k] * _dist(name, C[:, k], px, A) for k in range(K))
    tot = 0.0
    for a in range(K):
        for b in range(K):
            tot += pi[a] * pi[b] * _dist(name, C[:, a], C[:, b], A, same=(a == b))
    return tot


def w1_linprog(a, b, D):
    """Wasserstein-1 by an explicit LP (cross-check of POT on samples)."""
    from scipy.optimize import linprog
    n = len(a)
    Aeq, beq = [], []
    for i in range(n):
        r = np.zeros((n, n)); r[i, :] = 1; Aeq.append(r.reshape(-1)); beq.append(a[i])
    for j in range(n):
        r = np.zeros((n, n)); r[:, j] = 1; Aeq.append(r.reshape(-1)); beq.append(b[j])
    res = linprog(np.asarray(D).reshape(-1), A_eq=np.array(Aeq), b_eq=np.array(beq), bounds=(0, None), method="highs")
    return res.fun


# --------------------------------------------------------------------------------------------------------------------
# Proximal operators
# --------------------------------------------------------------------------------------------------------------------

def prox_group_lasso_row(w, thr):
    nrm = np.linalg.norm(w)
    if nrm <= thr:
        return np.zeros_like(w)
    return (1 - thr / nrm) * w


def prox_group_lasso(W, thr, groups=None):
    W = np.asarray(W, dtype=np.float64)
    out = np.empty_like(W)
    if groups is None:
        groups = [[i] for i in range(W.shape[0])]
    groups = [[int(v) for v in g] for g in groups]        # a group is a SET of feature rows, whatever sequence type holds it
    for g in groups:
        flat = W[g].reshape(-1)
        out[g] = prox_group_lasso_row(flat, thr).reshape(W[g].shape)
    return out


def hier_prox_row(v, u, alpha, M):
    """Exact minimiser of 0.5||b-v||^2 + 0.5||t-u||^2 + alpha*||b||  s.t. |t_i| <= M*||b||   (v: skip row, u: hidden row).

    Reduced to the scalar r = ||b||:  phi(r) = 0.5 (r-||v||)^2 + alpha r + 0.5 sum_i max(|u_i| - M r, 0)^2, convex and
    piecewise quadratic; minimised piece by piece.  Returns (beta, theta, unique) — `unique` is False when v == 0 (the
    direction of beta is then undetermined unless r* == 0)."""
    v = np.asarray(v, dtype=np.float64).reshape(-1)
    u = np.asarray(u, dtype=np.float64).reshape(-1)
    nv = float(np.linalg.norm(v))
    au = np.abs(u)

    def dphi(r):
        # derivative of the reduced convex objective (non-decreasing, piecewise linear)
        return r - nv + alpha - M * np.sum(np.maximum(au - M * r, 0.0))

    if dphi(0.0) >= 0:
        r = 0.0
    else:
        if M > 0:
            bps = np.unique(au / M)
            edges = np.concatenate([[0.0], bps, [np.inf]])
        else:
            edges = np.array([0.0, np.inf])
        r = None
        best = None
        for lo, hi in zip(edges[:-1], edges[1:]):
            if hi <= lo:
                continue
            mid = lo + 1.0 if np.isinf(hi) else 0.5 * (lo + hi)
            S = au > M * mid
            cand = (nv - alpha + M * au[S].sum()) / (1 + S.sum() * M * M)     # root of the derivative on this piece
            # the acceptance slack must be RELATIVE to the scale of the piece (pieces can be 1e-9 wide next to r ~ 1e-8)
            slack = 1e-12 * max(abs(cand), abs(lo), 0.0 if np.isinf(hi) else abs(hi))
            if lo - slack <= cand <= hi + slack:
                r = min(max(cand, lo), hi)
                break
            clamped = min(max(cand, lo), hi)
            if best is None or abs(dphi(clamped)) < abs(dphi(best)):
                best = clamped
        if r is None:
            r = best if best is not None else 0.0
        r = max(r, 0.0)
    beta = r * v / nv if nv > 0 else np.zeros_like(v)
    theta = np.sign(u) * np.minimum(au, M * r)
    return beta, theta, (nv > 0 or r == 0)


def hier_prox(W_skip, W1, alpha, M, groups=None):
    W_skip = np.asarray(W_skip, dtype=np.float64)
    W1 = np.asarray(W1, dtype=np.float64)
    B = np.empty_like(W_skip)
    T = np.empty_like(W1)
    uniq = np.ones(W_skip.shape[0], dtype=bool)
    if groups is None:
        groups = [[i] for i in range(W_skip.shape[0])]
    groups = [[int(v) for v in g] for g in groups]
    for g in groups:
        b, t, ok = hier_prox_row(W_skip[g].reshape(-1), W1[g].reshape(-1), alpha, M)
        B[g] = b.reshape(W_skip[g].shape)
        T[g] = t.reshape(W1[g].shape)
        uniq[g] = ok
    return B, T, uniq


# --------------------------------------------------------------------------------------------------------------------
# KAURI
# --------------------------------------------------------------------------------------------------------------------

def kkmeans_objective(labels, kernel):
    """J = sum_k sigma(C_k x C_k) / |C_k|   directly from the definition."""
    labels = np.asarray(labels)
    s = 0.0
    for v in np.unique(labels):
        idx = np.where(labels == v)[0]
        s += kernel[np.ix_(idx, idx)].sum() / len(idx)
    return float(s)


def split_kind(k, n_clusters, lt, rt):
    if lt >= n_clusters and rt >= n_clusters:
        return "double_star"
    if lt >= n_clusters or rt >= n_clusters:
        return "star"
    if lt == k or rt == k:
        return "switch"
    return "reallocation"


def enumerate_splits(kernel, X, leaves, Y, Z, n_clusters, K_max, min_leaf, feats):
    """Every admissible alternative of a KAURI growth step with its true objective increase.
    Yields dicts(gain, kind, leaf, feature, threshold, left_target, right_target)."""
    labels = (Y @ Z).argmax(0)
    base = kkmeans_objective(labels, kernel)
    sizes = Y @ Z.sum(1)
    out = []
    for j in leaves:
        j = int(j)
        idx = np.nonzero(Z[j])[0]
        k = int(Y[:, j].argmax())
        n_leaf = len(idx)
        whole = (n_leaf == sizes[k])
        for f in feats:
            f = int(f)
            vals = np.unique(X[idx, f])
            for t in vals[:-1]:
                left = idx[X[idx, f] <= t]
                right = idx[X[idx, f] > t]
                if len(left) < min_leaf or len(right) < min_leaf:
                    continue
                cands = []
                if n_clusters < K_max - 1 and not whole:
                    cands.append((n_clusters, n_clusters + 1))
                if n_clusters < K_max:
                    cands += [(n_clusters, k), (k, n_clusters)]
                if n_clusters >= 2:
                    for kp in range(n_clusters):
                        if kp != k:
                            cands += [(kp, k), (k, kp)]
                if n_clusters >= 3 and not whole:
                    for a in range(n_clusters):
                        for b in range(n_clusters):
                            if a != k and b != k and a != b:
                                cands.append((a, b))
                for lt, rt in cands:
                    lab = labels.copy()
                    lab[left] = lt
                    lab[right] = rt
                    g = kkmeans_objective(lab, kernel) - base
                    out.append(dict(gain=g, kind=split_kind(k, n_clusters, lt, rt), leaf=j, feature=f, threshold=float(t),
                                    left_target=int(lt), right_target=int(rt)))
    return base, out


def tree_route(tree, x):
    """Independent interpreter of the array-encoded tree: label of one query point."""
    node = 0
    while tree.children_left[node] != -1:
        f, t = tree.features[node], tree.thresholds[node]
        node = tree.children_left[node] if x[f] <= t else tree.children_right[node]
    return tree.target[node], node


# --------------------------------------------------------------------------------------------------------------------
# mlcl validation rule
# --------------------------------------------------------------------------------------------------------------------

def mlcl_accepts(must_link, cannot_link):
    """Reference rule: accept iff no self-pair and no cannot-link pair inside one must-link component."""
    parent = {}

    def find(x):
        parent.setdefault(x, x)
        while parent[x] != x:
            parent[x] = parent[parent[x]]
            x = parent[x]
        return x

    for i, j in must_link:
        if i == j:
            return False, "self_pair_ml"
        parent[find(i)] = find(j)
    for i, j in cannot_link:
        if i == j:
            return False, "self_pair_cl"
    for i, j in cannot_link:
        if i in parent and j in parent and find(i) == find(j):
            return False, "contradiction"
    return True, "ok"
