"""Self-tests of the machinery: determinism of the simulation and sensitivity to seeded source mutants."""
import json
import os
import shutil
import subprocess
import sys
import tempfile

VERIF = os.path.dirname(os.path.dirname(os.path.abspath(__file__)))
CLI = os.path.join(VERIF, "gemsim", "cli.py")


def _digests(props, n, hashseed, workers_tag):
    code = (
        "import os,sys,json\n"
        "sys.argv=['x']\n"
        f"sys.path.insert(0, {VERIF!r}); sys.path.insert(0, os.environ.get('GEMSIM_REPO','/repo'))\n"
        "for k in ('OMP_NUM_THREADS','OPENBLAS_NUM_THREADS','MKL_NUM_THREADS'): os.environ[k]='1'\n"
        "import warnings; warnings.simplefilter('ignore')\n"
        "from gemsim import runner\n"
        f"props={props!r}; n={n}\n"
        "out={}\n"
        "for p in props:\n"
        "    for i in range(n):\n"
        "        rec=runner.generate_record(p, 12345, i)\n"
        "        res=runner.execute_record(p, rec)\n"
        "        out[f'{p}/{i}']=[res.digest, res.classes(), res.harness_error is not None, json.dumps(rec, sort_keys=True)]\n"
        "print(json.dumps(out))\n"
    )
    env = dict(os.environ, PYTHONHASHSEED=str(hashseed))
    r = subprocess.run([sys.executable, "-c", code], env=env, capture_output=True, text=True, timeout=3000)
    if r.returncode != 0:
        raise RuntimeError(r.stderr[-2000:])
    return json.loads(r.stdout.strip().splitlines()[-1])


def determinism(props=None, n=24):
    """Every run index executed twice in fresh interpreters under different PYTHONHASHSEED values; the generated record,
    the event digest and the violation classes must be identical."""
    from .runner import SCENARIOS
    props = props or sorted(SCENARIOS)
    import concurrent.futures as cf
    bad = 0
    with cf.ThreadPoolExecutor(max_workers=8) as ex:
        futs = {}
        for p in props:
            for hs in (0, 1, 4242):
                futs[(p, hs)] = ex.submit(_digests, [p], n, hs, "")
        results = {k: f.result() for k, f in futs.items()}
    for p in props:
        a, b, c = results[(p, 0)], results[(p, 1)], results[(p, 4242)]
        for k in a:
            if a[k] != b[k] or a[k] != c[k]:
                bad += 1
                print("NONDETERMINISTIC", k, a[k][0], b[k][0], c[k][0])
            if a[k][2]:
                print("HARNESS-ERROR in", k)
                bad += 1
        print(f"determinism {p}: {len(a)} runs x 3 interpreters (PYTHONHASHSEED 0/1/4242) identical={bad == 0}")
    return 0 if bad == 0 else 2


def pool_determinism(props=None, runs=400):
    """The whole check (fork pool, aggregation) executed at two worker counts and two PYTHONHASHSEED values must produce
    the same batch digest (= hash of every run's event digest in index order)."""
    from .runner import SCENARIOS
    props = props or sorted(SCENARIOS)
    bad = 0
    for p in props:
        digs = []
        for workers, hs in ((4, 0), (16, 99)):
            scratch = tempfile.mkdtemp(prefix="gemsim_det_")
            env = dict(os.environ, PYTHONHASHSEED=str(hs), GEMSIM_SCRATCH=scratch)
            r = subprocess.run([sys.executable, CLI, "check", p, "--runs", str(runs), "--workers", str(workers), "--seed", "777",
                                "--no-shrink"], env=env, capture_output=True, text=True, timeout=3000)
            try:
                ev = json.load(open(os.path.join(scratch, "evidence", f"{p}.json")))
                digs.append(ev["coverage"]["batch_digest"])
            except Exception as e:
                digs.append(f"error:{e}:{r.stdout[-300:]}{r.stderr[-300:]}")
            shutil.rmtree(scratch, ignore_errors=True)
        same = len(set(digs)) == 1 and not digs[0].startswith("error")
        bad += 0 if same else 1
        print(f"pool determinism {p}: {runs} runs, workers 4 vs 16, PYTHONHASHSEED 0 vs 99: identical={same}")
        if not same:
            print("  ", digs)
    return 0 if bad == 0 else 2


def make_mutant_copy(edits):
    """Copy /repo/gemclus to a temp dir and apply (relative file, old, new) string edits.  Returns the temp root."""
    repo = os.environ.get("GEMSIM_REPO", "/repo")
    root = tempfile.mkdtemp(prefix="gemsim_mut_")
    shutil.copytree(os.path.join(repo, "gemclus"), os.path.join(root, "gemclus"),
                    ignore=shutil.ignore_patterns("__pycache__", "tests", "*.cpp"))
    for rel, old, new in edits:
        p = os.path.join(root, rel)
        s = open(p).read()
        if s.count(old) < 1:
            shutil.rmtree(root)
            raise RuntimeError(f"mutant edit does not apply: {rel}: {old!r}")
        s = s.replace(old, new, 1)
        open(p, "w").write(s)
    return root


def run_on_copy(root, prop, runs=None, tier="quick", seed=0):
    env = dict(os.environ, GEMSIM_REPO=root)
    cmd = [sys.executable, CLI, "check", prop, "--tier", tier, "--seed", str(seed), "--no-shrink"]
    if runs:
        cmd += ["--runs", str(runs)]
    # evidence/out of the mutant run must not overwrite the real ones
    env["GEMSIM_SCRATCH"] = root
    r = subprocess.run(cmd, env=env, capture_output=True, text=True, timeout=3000)
    return r.returncode, r.stdout + r.stderr


def mutants(props=None):
    from .mutants import CATALOGUE
    ok = True
    for name, m in sorted(CATALOGUE.items()):
        if props and m["property"] not in props:
            continue
        root = make_mutant_copy(m["edits"])
        try:
            rc, out = run_on_copy(root, m["property"], runs=m.get("runs"))
        finally:
            shutil.rmtree(root, ignore_errors=True)
        classes = sorted({ln.split("class=")[1].split()[0] for ln in out.splitlines() if "class=" in ln})
        caught = rc == 1
        ok &= caught
        print(f"mutant {name:40s} property={m['property']} caught={caught} rc={rc} classes={classes[:4]}")
    return 0 if ok else 1
