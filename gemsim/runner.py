"""Seeded search over simulated runs: fork pool, per-run time limits, classification
(VIOLATION / KNOWN-FINDING / HARNESS-ERROR), minimisation, replay files, evidence."""
import concurrent.futures as cf
import faulthandler
import fnmatch
import importlib
import json
import multiprocessing as mp
import os
import signal
import sys
import time
import traceback

from .core import derive_seed, make_rng, Result, SIM_VERSION

VERIF = os.path.dirname(os.path.dirname(os.path.abspath(__file__)))
_SCRATCH = os.environ.get("GEMSIM_SCRATCH")  # mutant self-tests write their replay/evidence files elsewhere
OUT_DIR = os.path.join(_SCRATCH or VERIF, "out")
EVIDENCE_DIR = os.path.join(_SCRATCH or VERIF, "evidence")
KNOWN_FILE = os.path.join(VERIF, "known_findings.json")

SCENARIOS = {
    "C03": "gemsim.scenarios.c03",
    "C06": "gemsim.scenarios.c06",
    "C07": "gemsim.scenarios.c07",
    "C08": "gemsim.scenarios.c08_c09",
    "C09": "gemsim.scenarios.c08_c09",
    "C10": "gemsim.scenarios.c10",
    "C12": "gemsim.scenarios.c12",
    "C14": "gemsim.scenarios.c14",
}

# runs per tier (tuned so that quick stays well under its time-out on 16 cores)
BUDGET = {
    "C03": {"quick": 4000, "thorough": 200000},
    "C06": {"quick": 8000, "thorough": 400000},
    "C07": {"quick": 3000, "thorough": 150000},
    "C08": {"quick": 20000, "thorough": 1000000},
    "C09": {"quick": 20000, "thorough": 1000000},
    "C10": {"quick": 20000, "thorough": 1200000},
    "C12": {"quick": 6000, "thorough": 400000},
    "C14": {"quick": 25000, "thorough": 2000000},
}
WALL = {"quick": 420, "thorough": 2700}
RUN_TIMEOUT = 120


class RunTimeout(Exception):
    pass


def load_scenario(prop):
    return importlib.import_module(SCENARIOS[prop])


def meta(prop, name, default):
    """Scenario metadata: a module attribute, optionally a dict keyed by property id."""
    v = getattr(load_scenario(prop), name, default)
    if isinstance(v, dict) and prop in v:
        v = v[prop]
    return v


def _alarm(signum, frame):
    raise RunTimeout()


def execute_record(prop, record):
    """Execute one record in this process; returns a Result (harness exceptions are captured)."""
    mod = load_scenario(prop)
    try:
        signal.signal(signal.SIGALRM, _alarm)
        signal.setitimer(signal.ITIMER_REAL, RUN_TIMEOUT)
        import io
        old_stdout = sys.stdout
        sys.stdout = io.StringIO()     # verbose=True estimators print progress
        try:
            if hasattr(mod, "execute_for"):
                res = mod.execute_for(prop, record)
            else:
                res = mod.execute(record)
        finally:
            sys.stdout = old_stdout
            signal.setitimer(signal.ITIMER_REAL, 0)
    except RunTimeout:
        res = Result()
        res.harness_error = f"run exceeded {RUN_TIMEOUT}s wall time"
    except BaseException as e:  # anything escaping a scenario is a harness problem, never a VIOLATION
        res = Result()
        res.harness_error = "".join(traceback.format_exception(type(e), e, e.__traceback__))[-3000:]
    return res


def generate_record(prop, verif_seed, index):
    mod = load_scenario(prop)
    run_seed = derive_seed(verif_seed, prop, index)
    rng = make_rng(run_seed)
    if hasattr(mod, "generate_for"):
        rec = mod.generate_for(prop, rng)
    else:
        rec = mod.generate(rng)
    rec["property"] = prop
    rec["tier"] = os.environ.get("GEMSIM_TIER", "quick")
    rec["sim_version"] = SIM_VERSION
    rec["run_seed"] = run_seed
    rec["run_index"] = index
    # the record must be pure JSON: execution consumes only what a replay file can carry
    return json.loads(json.dumps(rec))


def _sig_hash(sig):
    import hashlib
    return hashlib.blake2b(sig.encode(), digest_size=8).digest()


def _init_worker():
    # the clean room must be forked before this worker executes anything (see cleanroom.py)
    from . import cleanroom
    cleanroom.install()


def _worker(args):
    """Runs a chunk of run indices and returns an AGGREGATE (so that millions of runs fit in memory): counters, hashed
    signature/state sets, the records of violating runs (first per class within the chunk), harness errors, samples."""
    prop, verif_seed, indices = args
    faulthandler.enable()
    agg = {"n_ok": 0, "probes": {}, "faults": {}, "events": {}, "sigs": set(), "states": set(), "violations": [],
           "class_counts": {}, "harness": [], "samples": [], "first": None, "digests": []}
    seen_cls = set()
    for i in indices:
        rec = generate_record(prop, verif_seed, i)
        rj = execute_record(prop, rec).to_json()
        if agg["first"] is None:
            agg["first"] = rec
        if rj["harness_error"]:
            agg["harness"].append(f"run {i} (seed {rec['run_seed']}): {rj['harness_error']}")
            continue
        agg["n_ok"] += 1
        agg["digests"].append((i, rj["digest"]))
        for name in ("probes", "faults", "events"):
            d = agg[name]
            for k, v in rj[name].items():
                d[k] = d.get(k, 0) + v
        if rj["nontrivial"]:
            agg["sigs"].add(_sig_hash(rj["signature"]))
            if len(agg["samples"]) < 1:
                agg["samples"].append(rec)
        for st in rj["state_keys"]:
            agg["states"].add(_sig_hash(st))
        for v in rj["violations"]:
            cls = v["class"]
            agg["class_counts"][cls] = agg["class_counts"].get(cls, 0) + 1
            if cls not in seen_cls:
                seen_cls.add(cls)
                agg["violations"].append((i, rec, v, rj["digest"]))
    return agg


def load_known():
    if not os.path.exists(KNOWN_FILE):
        return []
    return json.load(open(KNOWN_FILE)).get("entries", [])


def known_match(entries, prop, cls):
    """A *known* entry suppresses exactly its class (optionally a class prefix ending in '*'); *fixed* entries
    suppress nothing."""
    for e in entries:
        if e.get("status") != "known" or e.get("property") != prop:
            continue
        c = e["class"]
        if c == cls or ("*" in c and fnmatch.fnmatchcase(cls, c)):
            return e
    return None


def slug(s):
    return "".join(ch if ch.isalnum() else "_" for ch in s)[:80]


def run_check(prop, tier, verif_seed, runs=None, workers=None, shrink=True, quiet=False):
    t0 = time.time()
    os.environ["GEMSIM_TIER"] = tier      # scenarios widen their shape/history ranges in the thorough tier
    n_runs = runs if runs is not None else BUDGET[prop][tier]
    workers = workers or min(16, os.cpu_count() or 1)
    wall = WALL[tier]
    chunk = max(4, min(64, n_runs // (workers * 40)))
    tasks = [(prop, verif_seed, list(range(i, min(i + chunk, n_runs)))) for i in range(0, n_runs, chunk)]
    aggs = []
    harness_errors = []
    truncated = False
    ctx = mp.get_context("fork")
    with cf.ProcessPoolExecutor(max_workers=workers, mp_context=ctx, initializer=_init_worker) as ex:
        futs = {ex.submit(_worker, t): t for t in tasks}
        try:
            for f in cf.as_completed(futs, timeout=wall):
                try:
                    aggs.append((futs[f][2][0], f.result()))
                except Exception as e:
                    harness_errors.append(f"worker died on indices {futs[f][2]}: {type(e).__name__}: {e}")
        except cf.TimeoutError:
            truncated = True
            for f in futs:
                f.cancel()
            # do not wait for stragglers beyond the wall limit
            for p in list(getattr(ex, "_processes", {}).values()):
                try:
                    p.terminate()
                except Exception:
                    pass
    aggs.sort(key=lambda t: t[0])
    entries = load_known()
    by_class = {}
    known_seen = {}
    probes, faults, events = {}, {}, {}
    signatures = set()
    states = set()
    samples = []
    n_ok = 0
    first_rec = None
    import hashlib
    batch = hashlib.sha256()
    first_digests = {}
    n_recheck = 40 if tier == "quick" else 400
    for _, a in aggs:
        for i, dg in a["digests"]:
            batch.update(f"{i}:{dg};".encode())
            if i < n_recheck:
                first_digests[i] = dg
        n_ok += a["n_ok"]
        harness_errors.extend(a["harness"])
        if first_rec is None:
            first_rec = a["first"]
        for name, tgt in (("probes", probes), ("faults", faults), ("events", events)):
            for k, v in a[name].items():
                tgt[k] = tgt.get(k, 0) + v
        signatures |= a["sigs"]
        states |= a["states"]
        if len(samples) < 3:
            samples.extend(a["samples"][:1])
        for cls, cnt in a["class_counts"].items():
            e = known_match(entries, prop, cls)
            if e is not None:
                known_seen.setdefault(cls, [e, 0])[1] += cnt
        for (i, rec, v, digest) in a["violations"]:
            cls = v["class"]
            if known_match(entries, prop, cls) is None:
                lst = by_class.setdefault(cls, [[], 0])
                lst[0].append((i, rec, v, digest))
        for cls, cnt in a["class_counts"].items():
            if cls in by_class:
                by_class[cls][1] += cnt
    samples = [{k: r[k] for k in r if k != "sim_version"} for r in samples]
    if not samples and first_rec is not None:
        samples.append(first_rec)

    # determinism cross-check: the first runs are executed again in THIS process (another heap, another import order)
    # and must produce the same event digests as in the worker processes
    det = {"runs_rechecked": 0, "identical": True}
    t_det = time.time()
    for i in sorted(first_digests):
        if time.time() - t_det > (20 if tier == "quick" else 120):
            break
        res_i = execute_record(prop, generate_record(prop, verif_seed, i))
        det["runs_rechecked"] += 1
        if res_i.digest != first_digests[i]:
            # Reported, not fatal: on the unchanged tree the simulation is deterministic (self-tests); a difference that
            # appears on a changed tree means the LIBRARY carries state from one run to the next.  C12's clean-room
            # reference is the oracle that decides that; the other checks must not turn it into an alarm of their own.
            det["identical"] = False
            det["first_mismatch"] = {"run": i, "worker": first_digests[i], "re_executed": res_i.digest}
            print(f"DETERMINISM-WARNING run {i}: event digest differs between the worker process and a re-execution")
            break

    # missing seam: the event kind the scenario depends on never occurred in the whole batch (a single silent run is
    # not an error: a library change may legitimately make one call do nothing)
    key_event = meta(prop, "KEY_EVENT", None)
    if key_event and n_ok >= 20 and events.get(key_event, 0) == 0:
        harness_errors.append(f"seam missing: no {key_event} event in {n_ok} runs")

    violations_out = []
    os.makedirs(OUT_DIR, exist_ok=True)
    shrink_deadline = time.time() + (150 if tier == "quick" else 600)   # total minimisation budget of this check
    for cls, (lst, count) in sorted(by_class.items()):
        lst.sort(key=lambda t: t[0])
        i, rec, v, digest = lst[0]
        final = rec
        note = None
        remaining = shrink_deadline - time.time()
        if shrink and remaining > 5:
            try:
                from .shrink import minimise
                final, note = minimise(prop, rec, cls, time_limit=min(60 if tier == "quick" else 240, remaining))
            except Exception as e:  # minimisation is best effort; the unshrunk record is still a valid replay
                note = f"minimisation failed: {type(e).__name__}: {e}"
                final = rec
        elif shrink:
            note = "not minimised: the minimisation budget of this check was spent on earlier classes"
        res2 = execute_record(prop, final)
        if cls not in res2.classes():
            final, res2 = rec, execute_record(prop, rec)
        replay = dict(final)
        replay["expect"] = {"violation_class": cls, "digest": res2.digest,
                            "detail": next((x.detail for x in res2.violations if x.cls == cls), v["detail"])}
        replay["minimisation"] = note
        replay["original_run_index"] = i
        path = os.path.join(OUT_DIR, f"{prop}-{slug(cls)}-{verif_seed}.replay.json")
        with open(path, "w") as fh:
            json.dump(replay, fh, indent=1, sort_keys=True, default=str)
        violations_out.append((cls, path, count))

    wall_s = time.time() - t0
    evidence = {
        "property_id": prop, "tier": tier, "seed": int(verif_seed), "level": "exploration",
        "coverage": {
            "evaluations": int(n_ok),
            "distinct_nontrivial": int(len(signatures)),
            "rule": meta(prop, "RULE", ""),
            "samples": samples,
            "runs_requested": int(n_runs), "truncated_by_wall": truncated,
            "runs_per_hour": int(n_ok / max(wall_s, 1e-9) * 3600),
            "sim_events": events, "sim_time_logical_events": int(sum(events.values())),
            "fault_counts": faults, "probes": probes,
            "distinct_states": int(len(states)),
            "distinct_states_measure": meta(prop, "STATE_MEASURE", "distinct (configuration signature, schedule/fault plan) pairs"),
            "components_real": meta(prop, "COMPONENTS_REAL", []),
            "components_stub": meta(prop, "COMPONENTS_STUB", []),
            "known_findings_seen": {c: n for c, (e, n) in known_seen.items()},
            "violation_classes": {c: n for c, _, n in violations_out},
            "harness_errors": len(harness_errors),
            "batch_digest": "sha256:" + batch.hexdigest(),
            "determinism_selftest": det,
            "workers": workers,
            "extension_fingerprint": extension_fingerprint(),
        },
        "assumptions": meta(prop, "ASSUMPTIONS", []),
        "wall_s": round(wall_s, 2),
        "violations": len(violations_out),
    }
    os.makedirs(EVIDENCE_DIR, exist_ok=True)
    write_evidence(prop, evidence)

    if not quiet:
        print(f"gemsim check {prop} tier={tier} seed={verif_seed} runs={n_ok}/{n_runs} wall={wall_s:.1f}s "
              f"distinct_nontrivial={len(signatures)} events={sum(events.values())}")
        print("  faults fired:", json.dumps(faults, sort_keys=True))
        print("  probes:", json.dumps(probes, sort_keys=True))
    for cls, (e, n) in sorted(known_seen.items()):
        print(f"KNOWN-FINDING: property={prop} {cls} ({n} runs) {e.get('what', '')}")
    for cls, path, n in violations_out:
        print(f"VIOLATION property={prop} replay={path}")
        print(f"  class={cls} runs={n}")
    if harness_errors:
        for h in harness_errors[:5]:
            print("HARNESS-ERROR", h[-1500:])
        print(f"HARNESS-ERROR total={len(harness_errors)}")
    if violations_out:
        return 1
    if harness_errors or truncated and n_ok < max(8, n_runs // 4):
        return 2
    return 0


def write_evidence(prop, evidence):
    path = os.path.join(EVIDENCE_DIR, f"{prop}.json")
    try:
        import jsonschema
        schema = json.load(open("/root/.vp/EVIDENCE.schema.json"))
        jsonschema.validate(evidence, schema)
    except ImportError:
        pass
    except FileNotFoundError:
        pass
    tmp = path + ".tmp"
    with open(tmp, "w") as fh:
        json.dump(evidence, fh, indent=1, sort_keys=True, default=str)
    os.replace(tmp, path)


_EXT = None


def extension_fingerprint():
    """sha256 of _utils.pyx and of the compiled extension that actually runs, and whether the generated C++ still embeds
    every source line of the .pyx (Cython cannot be re-run in this sandbox)."""
    global _EXT
    if _EXT is not None:
        return _EXT
    import hashlib
    import glob
    repo = os.environ.get("GEMSIM_REPO", "/repo")
    d = os.path.join(repo, "gemclus", "tree")
    out = {}
    try:
        pyx = open(os.path.join(d, "_utils.pyx"), "rb").read()
        out["pyx_sha256"] = hashlib.sha256(pyx).hexdigest()
        sos = sorted(glob.glob(os.path.join(d, "_utils*.so")))
        if sos:
            out["so"] = os.path.basename(sos[0])
            out["so_sha256"] = hashlib.sha256(open(sos[0], "rb").read()).hexdigest()
        cpp = os.path.join(d, "_utils.cpp")
        if os.path.exists(cpp):
            text = open(cpp, errors="replace").read()
            lines = [ln.strip() for ln in pyx.decode(errors="replace").splitlines()]
            code = [ln for ln in lines if ln and not ln.startswith("#") and not ln.startswith('"""') and not ln.startswith(":")]
            missing = [ln for ln in code if ln not in text]
            out["pyx_lines_missing_from_cpp"] = len(missing)
            out["extension_in_sync_with_pyx"] = len(missing) == 0
    except Exception as e:
        out["error"] = f"{type(e).__name__}: {e}"
    _EXT = out
    return out
