#!/venv/bin/python
"""gemsim — deterministic simulation with fault injection for GemClus.

  cli.py setup
  cli.py check <Cxx> [--tier quick|thorough] [--seed N] [--runs N] [--workers N]
  cli.py replay <file>
  cli.py one <Cxx> <index> [--seed N]          (generate + execute one run, print the result)
  cli.py selftest determinism [--props ...] [--n N]
"""
import os
import sys

# determinism discipline: one BLAS/OpenMP thread, set before numpy is imported
for _k in ("OMP_NUM_THREADS", "OPENBLAS_NUM_THREADS", "MKL_NUM_THREADS", "NUMEXPR_NUM_THREADS"):
    os.environ[_k] = "1"
os.environ.setdefault("PYTHONWARNINGS", "ignore")

HERE = os.path.dirname(os.path.abspath(__file__))
VERIF = os.path.dirname(HERE)
REPO = os.environ.get("GEMSIM_REPO", "/repo")
sys.path.insert(0, VERIF)
sys.path.insert(0, REPO)

import argparse
import json
import warnings


def _assert_repo():
    import gemclus
    got = os.path.realpath(os.path.dirname(os.path.dirname(gemclus.__file__)))
    if got != os.path.realpath(REPO):
        print(f"HARNESS-ERROR gemclus imported from {got}, expected {REPO}")
        sys.exit(2)


def cmd_setup(args):
    import glob
    import subprocess
    d = os.path.join(REPO, "gemclus", "tree")
    if not glob.glob(os.path.join(d, "_utils*.so")):
        cpp = os.path.join(d, "_utils.cpp")
        if not os.path.exists(cpp):
            print("setup: compiled KAURI extension and _utils.cpp both missing; cannot build (no Cython offline)")
            return 2
        import sysconfig
        import numpy
        ext = sysconfig.get_config_var("EXT_SUFFIX")
        cmd = ["g++", "-O2", "-shared", "-fPIC", "-std=c++17", "-I" + sysconfig.get_paths()["include"],
               "-I" + numpy.get_include(), cpp, "-o", os.path.join(d, "_utils" + ext)]
        print("setup:", " ".join(cmd))
        subprocess.check_call(cmd)
    _assert_repo()
    import numpy, scipy, sklearn, ot, gemclus  # noqa
    from gemclus.tree._utils import find_best_split  # noqa
    try:
        import jsonschema  # noqa
    except ImportError:
        wheels = "/opt/veriftools/wheels"
        rc = subprocess.call([sys.executable, "-m", "pip", "install", "-q", "--no-index", "--find-links", wheels, "jsonschema"])
        print("setup: installed jsonschema from the offline wheelhouse" if rc == 0 else
              "setup: jsonschema unavailable; evidence is written with the built-in minimal validation only")
    print("setup ok: numpy", numpy.__version__, "sklearn", sklearn.__version__, "gemclus from", gemclus.__file__)
    return 0


def _cleanroom():
    import gemclus  # noqa: the clean room must hold the imported, never-used library
    import gemsim.scenarios.c12  # noqa
    from gemsim import cleanroom
    cleanroom.install()


def cmd_check(args):
    _assert_repo()
    _cleanroom()
    from gemsim import runner
    tier = args.tier or os.environ.get("VERIF_TIER") or "quick"
    seed = args.seed if args.seed is not None else int(os.environ.get("VERIF_SEED", "0") or 0)
    return runner.run_check(args.prop, tier, seed, runs=args.runs, workers=args.workers, shrink=not args.no_shrink)


def cmd_replay(args):
    _assert_repo()
    _cleanroom()
    from gemsim import runner
    rec = json.load(open(args.file))
    prop = rec["property"]
    exp = rec.get("expect", {})
    res = runner.execute_record(prop, rec)
    if res.harness_error:
        print("HARNESS-ERROR", res.harness_error)
        return 2
    print("replay classes:", res.classes(), "digest:", res.digest)
    cls = exp.get("violation_class")
    if cls in res.classes():
        same = (res.digest == exp.get("digest"))
        print(f"VIOLATION property={prop} replay={os.path.abspath(args.file)}")
        print(f"  class={cls} digest_identical={same}")
        for v in res.violations:
            if v.cls == cls:
                print("  detail:", json.dumps(v.detail, default=str)[:1500])
        return 1
    if res.violations:
        entries = runner.load_known()
        unknown = [c for c in res.classes() if runner.known_match(entries, prop, c) is None]
        if unknown:
            print(f"VIOLATION property={prop} replay={os.path.abspath(args.file)}")
            print(f"  class={unknown[0]} (expected {cls})")
            return 1
    print("not reproduced: the recorded violation does not occur on this tree")
    return 0


def cmd_one(args):
    _assert_repo()
    _cleanroom()
    from gemsim import runner
    seed = args.seed if args.seed is not None else int(os.environ.get("VERIF_SEED", "0") or 0)
    rec = runner.generate_record(args.prop, seed, args.index)
    print(json.dumps(rec, indent=1, default=str))
    res = runner.execute_record(args.prop, rec)
    print(json.dumps(res.to_json(), indent=1, default=str))
    return 0


def cmd_selftest(args):
    _assert_repo()
    from gemsim import selftest
    if args.what == "determinism":
        return selftest.determinism(args.props or None, args.n)
    if args.what == "pool":
        return selftest.pool_determinism(args.props or None, args.n)
    if args.what == "mutants":
        return selftest.mutants(args.props or None)
    return 2


def main():
    ap = argparse.ArgumentParser()
    sub = ap.add_subparsers(dest="cmd", required=True)
    sub.add_parser("setup")
    c = sub.add_parser("check")
    c.add_argument("prop")
    c.add_argument("--tier")
    c.add_argument("--seed", type=int)
    c.add_argument("--runs", type=int)
    c.add_argument("--workers", type=int)
    c.add_argument("--no-shrink", action="store_true")
    r = sub.add_parser("replay")
    r.add_argument("file")
    o = sub.add_parser("one")
    o.add_argument("prop")
    o.add_argument("index", type=int)
    o.add_argument("--seed", type=int)
    s = sub.add_parser("selftest")
    s.add_argument("what")
    s.add_argument("--props", nargs="*")
    s.add_argument("--n", type=int, default=24)
    args = ap.parse_args()
    warnings.simplefilter("ignore")
    rc = {"setup": cmd_setup, "check": cmd_check, "replay": cmd_replay, "one": cmd_one, "selftest": cmd_selftest}[args.cmd](args)
    sys.stdout.flush()
    sys.exit(rc)


if __name__ == "__main__":
    main()
