"""Minimisation of a failing scenario record: greedy delta debugging over the record (drop ops, drop faults, smaller
sizes, simpler components) while the SAME violation class persists.  Each candidate is replayed in-process."""
import copy
import time


def _variants(rec):
    """Yield (description, simpler record) candidates, most aggressive first."""
    cfg = rec.get("config", {})
    p = cfg.get("params", {})
    ops = rec.get("ops", [])
    faults = rec.get("faults", {})

    def mod(desc, f):
        r = copy.deepcopy(rec)
        try:
            f(r)
        except Exception:
            return None
        return (desc, r)

    out = []
    # drop ops (any single op, keep at least one)
    if len(ops) > 1:
        for i in range(len(ops) - 1, -1, -1):
            out.append(mod(f"drop op {i}", lambda r, i=i: r["ops"].pop(i)))
        out.append(mod("keep last op only", lambda r: r.__setitem__("ops", r["ops"][-1:])))
    # faults → none
    if isinstance(faults, dict):
        if faults.get("sched"):
            out.append(mod("faithful schedule", lambda r: r["faults"].__setitem__("sched", [])))
            if len(faults["sched"]) > 1:
                out.append(mod("one schedule kind", lambda r: r["faults"].__setitem__("sched", r["faults"]["sched"][:1])))
        if faults.get("opt", "real") != "real":
            out.append(mod("real optimiser", lambda r: r["faults"].__setitem__("opt", "real")))
        for k in ("opt_raise_at", "gemini_fault", "kernel_raise_at", "steer_p", "subset_mode"):
            if faults.get(k) not in (None, 0, 0.0, "faithful"):
                out.append(mod(f"no {k}", lambda r, k=k: r["faults"].pop(k)))
        if faults.get("teleport_sigma"):
            out.append(mod("no teleport", lambda r: r["faults"].update(teleport_sigma=0.0, opt="real")))
    # config simplifications
    if cfg.get("decorate"):
        out.append(mod("no decoration", lambda r: r["config"].__setitem__("decorate", None)))
        d = cfg["decorate"]
        for key in ("must_link", "cannot_link"):
            for i in range(len(d.get(key, []))):
                out.append(mod(f"drop {key}[{i}]", lambda r, key=key, i=i: r["config"]["decorate"][key].pop(i)))
    for key, lo in (("max_iter", 1), ("n_hidden_dim", 1), ("n_cuts", 1)):
        if isinstance(p.get(key), int) and p[key] > lo:
            out.append(mod(f"{key}->{lo}", lambda r, key=key, lo=lo: r["config"]["params"].__setitem__(key, lo)))
            out.append(mod(f"{key}-1", lambda r, key=key: r["config"]["params"].__setitem__(key, r["config"]["params"][key] - 1)))
    if p.get("groups"):
        out.append(mod("no groups", lambda r: r["config"]["params"].pop("groups")))
    if p.get("dynamic"):
        out.append(mod("dynamic off", lambda r: r["config"]["params"].__setitem__("dynamic", False)))
    if p.get("feature_mask"):
        out.append(mod("no feature mask", lambda r: r["config"]["params"].pop("feature_mask")))
    if p.get("kernel_params"):
        out.append(mod("no kernel params", lambda r: r["config"]["params"].pop("kernel_params")))
    if p.get("batch_size") is not None:
        out.append(mod("batch_size None", lambda r: r["config"]["params"].__setitem__("batch_size", None)))
    if p.get("solver") == "adam":
        out.append(mod("sgd", lambda r: r["config"]["params"].__setitem__("solver", "sgd")))
    n, d, K = cfg.get("n"), cfg.get("d"), p.get("n_clusters", p.get("max_clusters"))
    if isinstance(n, int) and n > 2 and not cfg.get("decorate"):
        floor = max(2, K or 1)
        if n // 2 >= floor:
            out.append(mod("n/2", lambda r: r["config"].__setitem__("n", r["config"]["n"] // 2)))
        if n - 1 >= floor:
            out.append(mod("n-1", lambda r: r["config"].__setitem__("n", r["config"]["n"] - 1)))
    if isinstance(d, int) and d > 1 and not p.get("groups") and not p.get("feature_mask"):
        out.append(mod("d-1", lambda r: r["config"].__setitem__("d", r["config"]["d"] - 1)))
    if isinstance(p.get("n_clusters"), int) and p["n_clusters"] > 2:
        out.append(mod("K-1", lambda r: r["config"]["params"].__setitem__("n_clusters", r["config"]["params"]["n_clusters"] - 1)))
    return [o for o in out if o is not None]


def minimise(prop, rec, cls, time_limit=60, max_exec=200):
    from .runner import execute_record, load_scenario
    mod = load_scenario(prop)
    variants = getattr(mod, "shrink_variants", None)
    t0 = time.time()
    cur = copy.deepcopy(rec)
    n_exec = 0
    steps = []
    progress = True
    while progress and time.time() - t0 < time_limit and n_exec < max_exec:
        progress = False
        cands = _variants(cur)
        if variants is not None:
            cands = list(variants(cur)) + cands
        for desc, cand in cands:
            if time.time() - t0 > time_limit or n_exec >= max_exec:
                break
            n_exec += 1
            res = execute_record(prop, cand)
            if res.harness_error is None and cls in res.classes():
                cur = cand
                steps.append(desc)
                progress = True
                break
    return cur, {"executions": n_exec, "accepted": steps}
