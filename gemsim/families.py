"""Registry of the estimator families, configuration sampling and construction from a JSON record.

A *config* is pure JSON: {"family", "params", "n", "d", "data_seed", "data_scale", "affinity_kernel"?}.  Execution
rebuilds the estimator, the data and the user-supplied affinity from the config alone."""
import numpy as np

from .core import choice, weighted

GEMINI_NAMES = ["mmd_ova", "mmd_ovo", "wasserstein_ova", "wasserstein_ovo", "kl_ova", "kl_ovo", "mi", "tv_ova",
                "tv_ovo", "hellinger_ova", "hellinger_ovo", "chi2_ova", "chi2_ovo"]
KERNELS = ["linear", "rbf", "laplacian", "polynomial", "sigmoid", "cosine"]
METRICS = ["euclidean", "l2", "l1", "manhattan", "cityblock", "cosine"]

# kind flags: generic (gemini= parameter), mmd (kernel/ovo), wass (metric/ovo), mi (fixed MI)
FAMILIES = {
    "LinearModel": dict(mod="gemclus.linear", gem="generic", batched=True),
    "LinearMMD": dict(mod="gemclus.linear", gem="mmd", batched=True),
    "LinearWasserstein": dict(mod="gemclus.linear", gem="wass", batched=True),
    "RIM": dict(mod="gemclus.linear", gem="mi", batched=True, reg=True),
    "KernelRIM": dict(mod="gemclus.linear", gem="mi", batched=True, reg=True, kernelrim=True),
    "MLPModel": dict(mod="gemclus.mlp", gem="generic", batched=True, mlp=True),
    "MLPMMD": dict(mod="gemclus.mlp", gem="mmd", batched=True, mlp=True),
    "MLPWasserstein": dict(mod="gemclus.mlp", gem="wass", batched=True, mlp=True),
    "SparseLinearModel": dict(mod="gemclus.sparse", gem="generic", batched=True, sparse=True),
    "SparseLinearMMD": dict(mod="gemclus.sparse", gem="mmd", batched=True, sparse=True),
    "SparseLinearMI": dict(mod="gemclus.sparse", gem="mi", batched=True, sparse=True, nodynamic=True),
    "SparseMLPModel": dict(mod="gemclus.sparse", gem="generic", batched=True, sparse=True, mlp=True),
    "SparseMLPMMD": dict(mod="gemclus.sparse", gem="mmd", batched=True, sparse=True, mlp=True),
    "CategoricalModel": dict(mod="gemclus.nonparametric", gem="generic", batched=False, categorical=True),
    "CategoricalMMD": dict(mod="gemclus.nonparametric", gem="mmd", batched=False, categorical=True),
    "CategoricalWasserstein": dict(mod="gemclus.nonparametric", gem="wass", batched=False, categorical=True),
    "Douglas": dict(mod="gemclus.tree", gem="generic", batched=True, douglas=True),
}
GRADIENT_FAMILIES = list(FAMILIES)
SPARSE_FAMILIES = [f for f, v in FAMILIES.items() if v.get("sparse")]


def get_class(family):
    import importlib
    if family == "Kauri":
        return importlib.import_module("gemclus.tree").Kauri
    return getattr(importlib.import_module(FAMILIES[family]["mod"]), family)


def gemini_ref_spec(config):
    """(distance name, ovo) of the GEMINI a config trains with — for the independent reference."""
    fam = FAMILIES[config["family"]]
    p = config["params"]
    if fam["gem"] == "mi":
        return ("kl", False)
    if fam["gem"] == "mmd":
        return ("mmd", bool(p.get("ovo", False)))
    if fam["gem"] == "wass":
        return ("wasserstein", bool(p.get("ovo", False)))
    g = p.get("gemini", "mmd_ova")
    if g is None:
        return ("mmd", False)
    if isinstance(g, dict):
        return (g["type"], bool(g.get("ovo", False)))
    base = g.split("_")[0]
    return ("kl" if base == "mi" else base, g.endswith("ovo"))


def needs_affinity(config):
    return gemini_ref_spec(config)[0] in ("mmd", "wasserstein")


def uses_precomputed(config):
    p = config["params"]
    fam = FAMILIES[config["family"]]
    if fam["gem"] == "mmd":
        return p.get("kernel") == "precomputed"
    if fam["gem"] == "wass":
        return p.get("metric") == "precomputed"
    g = p.get("gemini")
    if isinstance(g, dict):
        return g.get("kernel") == "precomputed" or g.get("metric") == "precomputed"
    return False


def sample_gemini_params(rng, family, allow_precomputed=True, allow_instance=True, allow_callable=True):
    """Return the GEMINI-related constructor params (JSON) for a family."""
    kind = FAMILIES[family]["gem"]
    out = {}
    if kind == "mmd":
        ks = list(KERNELS) + (["precomputed", "precomputed"] if allow_precomputed else [])
        if allow_callable:
            ks.append("callable:rbf")
        out["kernel"] = choice(rng, ks)
        out["ovo"] = rng.random() < 0.5
        if out["kernel"] in ("rbf", "laplacian") and rng.random() < 0.3:
            out["kernel_params"] = {"gamma": choice(rng, [0.1, 0.5, 2.0])}
        elif out["kernel"] == "polynomial" and rng.random() < 0.3:
            out["kernel_params"] = {"degree": 2, "coef0": 0.5}
        elif out["kernel"] in ("rbf", "laplacian", "polynomial", "sigmoid") and rng.random() < 0.2:
            # a parameter dict that says "the default": empty, or the default spelled out (gamma=None is scikit-learn's default)
            out["kernel_params"] = choice(rng, [{}, {"gamma": None}])
        elif out["kernel"] in KERNELS and rng.random() < 0.08:
            out["kernel_params"] = {}
    elif kind == "wass":
        ms = list(METRICS) + (["precomputed", "precomputed"] if allow_precomputed else [])
        out["metric"] = choice(rng, ms)
        out["ovo"] = rng.random() < 0.5
        if out["metric"] in METRICS and rng.random() < 0.1:
            out["metric_params"] = {}
    elif kind == "generic":
        r = rng.random()
        if r < 0.7 or not allow_instance:
            out["gemini"] = choice(rng, GEMINI_NAMES)
        elif r < 0.75:
            out["gemini"] = None
        else:
            t = choice(rng, ["mmd", "wasserstein", "kl", "tv", "hellinger", "chi2"])
            g = {"type": t, "ovo": rng.random() < 0.5}
            if t == "mmd":
                g["kernel"] = choice(rng, KERNELS + (["precomputed"] if allow_precomputed else []) +
                                     (["callable:rbf", "callable:linear"] if allow_callable else []))
                if g["kernel"] in ("rbf", "laplacian", "callable:rbf") and rng.random() < 0.4:
                    g["kernel_params"] = {"gamma": choice(rng, [0.1, 0.5, 2.0])}     # legal even with a callable (ignored, warned)
                elif g["kernel"] in ("rbf", "laplacian", "polynomial", "sigmoid") and rng.random() < 0.25:
                    g["kernel_params"] = choice(rng, [{}, {"gamma": None}])
            if t == "wasserstein":
                g["metric"] = choice(rng, METRICS + (["precomputed"] if allow_precomputed else []))
            if rng.random() < 0.4:
                g["epsilon"] = choice(rng, [1e-6, 1e-3, 0.05, 0.05, 0.2])     # a legal, non-default clipping bound
            out["gemini"] = g
    return out


def sample_config(rng, family=None, families=None, n_range=(2, 14), d_range=(1, 4), k_range=(1, 4),
                  max_iter_range=(1, 3), allow_precomputed=True, allow_instance=True, allow_callable=True,
                  lr_choices=(1e-3, 1e-2, 0.1), scales=(0.5, 1.0, 2.0), min_d=None, alpha_choices=(0.0, 0.01, 0.3, 2.0),
                  p_big=0.0):
    if family is None:
        family = choice(rng, families or GRADIENT_FAMILIES)
    fam = FAMILIES[family]
    import os
    if os.environ.get("GEMSIM_TIER") == "thorough":
        p_big = min(0.35, 2.5 * p_big)
    big = rng.random() < p_big
    if big:
        # swarm: a share of the runs uses larger shapes (more samples, features, clusters, epochs, hidden units)
        n_range = (n_range[0], max(n_range[1], rng.randint(20, 40)))
        d_range = (d_range[0], max(d_range[1], rng.randint(5, 9)))
        k_range = (k_range[0], max(k_range[1], rng.randint(4, 7)))
        max_iter_range = (max_iter_range[0], max(max_iter_range[1], rng.randint(5, 12)))
    K = rng.randint(*k_range)
    n = rng.randint(max(K, n_range[0]), max(K, n_range[1]))
    dlo = d_range[0] if min_d is None else max(min_d, d_range[0])
    d = rng.randint(dlo, max(dlo, d_range[1]))
    p = dict(n_clusters=K, max_iter=rng.randint(*max_iter_range), random_state=rng.randrange(10000),
             solver=choice(rng, ["adam", "sgd"]), learning_rate=choice(rng, list(lr_choices)))
    if rng.random() < 0.12:
        p["verbose"] = True        # progress printing must not change anything else (stdout is captured by the harness)
    p.update(sample_gemini_params(rng, family, allow_precomputed, allow_instance, allow_callable))
    if fam["batched"]:
        p["batch_size"] = weighted(rng, [(None, 2), (1, 1), (2, 1), (3, 1), (rng.randint(1, max(1, n)), 3), (n, 1),
                                          (n + rng.randint(1, 4), 1)])
    if fam.get("reg"):
        p["reg"] = choice(rng, [0.0, 0.1, 1.0, 5.0])
    if fam.get("kernelrim"):
        p["base_kernel"] = choice(rng, ["linear", "rbf", "laplacian", "polynomial", "callable:rbf"])
    if fam.get("mlp"):
        p["n_hidden_dim"] = rng.randint(1, 5) if not big else rng.randint(4, 14)
    if fam.get("sparse"):
        p["alpha"] = choice(rng, list(alpha_choices))
        if not fam.get("nodynamic"):
            p["dynamic"] = rng.random() < 0.25
        if fam.get("mlp"):
            p["M"] = choice(rng, [0.0, 0.5, 2.0, 10.0])
        if d >= 2 and rng.random() < 0.4:
            p["groups"] = sample_groups(rng, d, max_size=3 if not big else 6)
    if fam.get("douglas"):
        p["n_cuts"] = rng.randint(1, 3)
        p["temperature"] = choice(rng, [0.5, 1.0, 2.0])
        if rng.random() < 0.3 and d >= 2:
            mask = [rng.random() < 0.6 for _ in range(d)]
            if not any(mask):
                mask[rng.randrange(d)] = True
            p["feature_mask"] = mask
            mask_dtype = weighted(rng, [("bool", 6), ("int64", 2), ("uint8", 1)])
        # keep the number of leaves small: at most 6 used features, and (n_cuts+1)**used <= 64 with n_cuts >= 1
        mask = p.get("feature_mask", [True] * d)
        if sum(mask) > 6:
            keep = set(rng.sample([i for i, m in enumerate(mask) if m], 6))
            mask = [i in keep for i in range(d)]
            p["feature_mask"] = mask
        used = sum(mask)
        while p["n_cuts"] > 1 and (p["n_cuts"] + 1) ** used > 64:
            p["n_cuts"] -= 1
    # heavy tails: every numeric hyper-parameter occasionally takes a value far from the toy range (thresholds such as
    # "20 hidden units", "batches of 40", "10 clusters" exist in real code)
    def rare(prob=0.03):
        return rng.random() < prob
    if rare() and n >= 10:
        p["n_clusters"] = K = min(n, choice(rng, [8, 10]))
    if rare():
        p["max_iter"] = choice(rng, [15, 25])
    if rare():
        p["learning_rate"] = choice(rng, [1e-4, 0.5])
    if fam.get("mlp") and rare(0.05):
        p["n_hidden_dim"] = choice(rng, [16, 20, 32])
    if fam.get("sparse") and rare():
        p["alpha"] = choice(rng, [1e-4, 100.0])
    if fam.get("sparse") and fam.get("mlp") and rare():
        p["M"] = 50.0
    if fam.get("reg") and rare():
        p["reg"] = 10.0
    if fam.get("douglas") and rare(0.06):
        p["temperature"] = choice(rng, [0.1, 5.0])
        used = sum(p.get("feature_mask", [True] * d))
        if used <= 2:
            p["n_cuts"] = choice(rng, [4, 5])
    cfg = dict(family=family, params=p, n=n, d=d, data_seed=rng.randrange(2 ** 31), data_scale=choice(rng, list(scales)))
    if fam.get("douglas") and p.get("feature_mask") is not None and locals().get("mask_dtype", "bool") != "bool":
        cfg["mask_dtype"] = mask_dtype
    if big:
        cfg["big"] = True
    if rng.random() < 0.08 and n >= 2:
        cfg["data_kind"] = "duplicates"
    fmask = p.get("feature_mask") if fam.get("douglas") else None
    if rng.random() < (0.3 if fmask is not None else 0.08) and d >= 2:
        # degenerate columns (a flag that takes one value in this sample): constant in the first data set, or in all of them
        cols = rng.sample(range(d), rng.randint(1, min(2, d - 1)))
        if fmask is not None and sum(fmask) >= 2 and rng.random() < 0.7:
            cols = [rng.choice([i for i in range(d) if fmask[i]])]     # a column the model really cuts
        cfg["const_cols"] = [[c, choice(rng, [0.0, 1.0, -2.5])] for c in sorted(cols)]
        cfg["const_scope"] = choice(rng, ["first", "all"])
    if p.get("groups") is not None and rng.random() < 0.15:
        cfg["group_fmt"] = choice(rng, ["tuples", "arrays", "mixed"])
    if rng.random() < 0.08:
        # hyper-parameters that come out of numpy computations (np.int64 batch sizes, np.float64 rates) are Integral / Real
        cfg["np_scalars"] = True
    if uses_precomputed(cfg):
        if gemini_ref_spec(cfg)[0] == "mmd":
            cfg["affinity_src"] = choice(rng, ["linear", "rbf", "polynomial", "laplacian"])
        else:
            cfg["affinity_src"] = choice(rng, ["euclidean", "manhattan", "cosine"])
        if rng.random() < 0.15:
            cfg["affinity_dtype"] = "int64"
        if gemini_ref_spec(cfg)[0] != "mmd" and rng.random() < 0.2:
            cfg["affinity_shift"] = True
    return cfg


def sample_groups(rng, d, max_size=3):
    """A random valid `groups` list: disjoint, possibly partial, possibly complete."""
    feats = list(range(d))
    rng.shuffle(feats)
    complete = rng.random() < 0.4
    groups = []
    i = 0
    while i < d:
        size = rng.randint(1, max_size)
        g = feats[i:i + size]
        i += size
        if complete or rng.random() < 0.6:
            groups.append(sorted(g) if rng.random() < 0.5 else g)
    if not groups:
        groups = [[feats[0]]]
    if rng.random() < 0.15:
        # empty groups are legal (check_groups keeps them): they change the NUMBER of groups without changing the partition
        for _ in range(rng.randint(1, 3)):
            groups.insert(rng.randrange(len(groups) + 1), [])
    return groups


# ---------------------------------------------------------------------------------------------------------------------

def make_data(config, which=0):
    """Training data of a config: continuous, pairwise-distinct rows (so every row is attributable to one sample)."""
    rs = np.random.RandomState((config["data_seed"] + 7919 * which) % (2 ** 31))
    n, d = config["n"], config["d"]
    X = rs.normal(size=(n, d)) * config.get("data_scale", 1.0)
    if config.get("data_kind") == "blobs":
        centers = rs.normal(size=(3, d)) * 3
        X = X * 0.5 + centers[rs.randint(3, size=n)]
    if config.get("data_kind") == "duplicates" and n >= 2:
        # exactly identical rows (low-cardinality data, repeated measurements): two samples, one feature vector
        for _ in range(max(1, n // 4)):
            i, j = rs.randint(n), rs.randint(n)
            X[i] = X[j]
    if config.get("const_cols") and (which == 0 or config.get("const_scope") == "all"):
        for c, v in config["const_cols"]:
            if c < X.shape[1]:
                X[:, c] = v
    return X


def make_affinity(config, X):
    """User-supplied precomputed affinity of a config (None when the config does not use one)."""
    if not uses_precomputed(config):
        return None
    from sklearn.metrics import pairwise_kernels, pairwise_distances
    src = config["affinity_src"]
    if gemini_ref_spec(config)[0] == "mmd":
        A = pairwise_kernels(X, metric=src)
    else:
        A = pairwise_distances(X, metric=src)
    A = (A + A.T) / 2
    if config.get("data_kind") == "duplicates":
        # a user-supplied matrix may distinguish samples that share a feature vector
        rs = np.random.RandomState(config["data_seed"] % (2 ** 31) ^ 0x0D0B)
        S = rs.normal(size=A.shape) * 1e-3
        S = (S + S.T) / 2
        np.fill_diagonal(S, 0.0)
        A = A + S
    if config.get("affinity_shift"):
        # a shifted cost matrix (costs relative to the median cost): negative entries, a transport objective that can be negative
        A = A - np.median(A)
    if config.get("affinity_dtype") == "int64":
        # an integer-valued matrix in an integer dtype: Hamming / edit / hop counts, co-occurrence counts
        A = np.rint(A * 3.0).astype(np.int64)
    return np.ascontiguousarray(A)


class SimKernel:
    """A user callable kernel (wraps a scikit-learn kernel); logs calls; can raise at the k-th call."""

    def __init__(self, name, log=None, raise_at=None):
        self.name = name
        self.log = log
        self.raise_at = raise_at
        self.calls = 0

    def __call__(self, X, Y=None):
        from sklearn.metrics import pairwise_kernels
        from .core import SimFault
        self.calls += 1
        if self.log is not None:
            self.log.emit("KERNEL_CALL", k=self.calls, rows=int(len(X)))
        if self.raise_at is not None and self.calls == self.raise_at:
            if self.log is not None:
                self.log.emit("FAULT", kind="kernel_raise", at=self.calls)
            raise SimFault("kernel_raise")
        return pairwise_kernels(X, Y, metric=self.name)

    # sklearn.clone deep-copies non-estimator parameters; keep that cheap and state-free
    def __deepcopy__(self, memo):
        return SimKernel(self.name, self.log, self.raise_at)

    def __eq__(self, other):
        return isinstance(other, SimKernel) and other.name == self.name

    def __hash__(self):
        return hash(("SimKernel", self.name))

    def __repr__(self):
        return f"SimKernel({self.name!r})"


def build_gemini_instance(spec):
    from gemclus.gemini import MMDGEMINI, WassersteinGEMINI, KLGEMINI, TVGEMINI, HellingerGEMINI, ChiSquareGEMINI
    t = spec["type"]
    ovo = bool(spec.get("ovo", False))
    extra = {"epsilon": spec["epsilon"]} if "epsilon" in spec else {}
    if t == "mmd":
        kern = spec.get("kernel", "linear")
        if isinstance(kern, str) and kern.startswith("callable:"):
            kern = SimKernel(kern.split(":", 1)[1])
        kp = spec.get("kernel_params")
        return MMDGEMINI(ovo=ovo, kernel=kern, kernel_params=None if kp is None else dict(kp), **extra)
    if t == "wasserstein":
        return WassersteinGEMINI(ovo=ovo, metric=spec.get("metric", "euclidean"), **extra)
    return {"kl": KLGEMINI, "tv": TVGEMINI, "hellinger": HellingerGEMINI, "chi2": ChiSquareGEMINI}[t](ovo=ovo, **extra)


def build_params(config, log=None, kernel_raise_at=None):
    """Constructor keyword arguments (real Python objects) from the JSON params."""
    p = dict(config["params"])
    if isinstance(p.get("gemini"), dict):
        p["gemini"] = build_gemini_instance(p["gemini"])
    for key in ("kernel", "base_kernel"):
        if isinstance(p.get(key), str) and p[key].startswith("callable:"):
            p[key] = SimKernel(p[key].split(":", 1)[1], log, kernel_raise_at)
    if p.get("feature_mask") is not None:
        # a 0/1 mask may be boolean or integer (the estimator's validation accepts any ndarray)
        p["feature_mask"] = np.array(p["feature_mask"], dtype=bool).astype(config.get("mask_dtype", "bool"))
    if p.get("groups") is not None:
        # the members of the list may be any sequence of feature indices: lists, tuples, index arrays
        fmt = config.get("group_fmt", "lists")
        conv = {"lists": list, "tuples": tuple, "arrays": lambda g: np.array(g, dtype=int)}
        if fmt == "mixed":
            kinds = [list, tuple, conv["arrays"]]
            p["groups"] = [kinds[i % 3](g) for i, g in enumerate(p["groups"])]
        else:
            p["groups"] = [conv[fmt](g) for g in p["groups"]]
    if config.get("np_scalars"):
        p = numpy_scalars(p)
    return p


def numpy_scalars(p):
    """The same hyper-parameter values as numpy scalars (numbers.Integral / numbers.Real, as parameter validation demands)."""
    out = {}
    for k, v in p.items():
        if isinstance(v, bool) or v is None:
            out[k] = v
        elif isinstance(v, int):
            out[k] = np.int64(v)
        elif isinstance(v, float):
            out[k] = np.float64(v)
        else:
            out[k] = v
    return out


def build_model(config, log=None, kernel_raise_at=None):
    cls = get_class(config["family"])
    return cls(**build_params(config, log, kernel_raise_at))


def config_signature(config):
    p = config["params"]
    g = p.get("gemini")
    if isinstance(g, dict):
        g = g["type"] + ("_ovo" if g.get("ovo") else "_ova") + ":inst"
    bs = p.get("batch_size")
    n = config["n"]
    bsk = "none" if bs is None else ("1" if bs == 1 else ("ge_n" if bs >= n else "mid"))
    return "|".join(str(x) for x in (config["family"], g, p.get("kernel"), p.get("metric"), p.get("ovo"),
                                     p.get("solver"), bsk, p.get("n_clusters"), bool(p.get("groups")),
                                     p.get("dynamic"), bool(config.get("decorate")), "big" if config.get("big") else "small"))
