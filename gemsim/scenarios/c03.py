"""C03 — every training update follows the true gradient of the regularised objective.

At every STEP event (a call of the optimiser's update_params during a real fit/path) the directions handed to the optimiser
are compared with a finite-difference derivative of   G_ref(infer_theta(X_b), A_b) + C_b(...) - R(theta)   obtained by
differentiating the model's own forward pass composed with an INDEPENDENT reference GEMINI (refs.ref_gemini)."""
import numpy as np

from ..core import EventLog, Result, SimFault, SimBudget, HarnessError, choice, weighted
from ..families import (sample_config, make_data, make_affinity, build_model, FAMILIES, GRADIENT_FAMILIES,
                        config_signature, gemini_ref_spec)
from ..refs import ref_gemini
from ..seams import World, ModelHarness
from .common import (sample_constraints, sample_sched, decorate, expected_batches, exc_site, is_harness_frame, quiet,
                     sample_prefix, second_dataset, run_generic_op, apply_layout, sample_layouts)

PROPERTY = "C03"
KEY_EVENT = "STEP"     # the seam this scenario depends on: it must fire somewhere in a batch of runs
RULE = ("one run = one seeded fit (sparse families: optionally followed by a short path) of a sampled family x GEMINI x solver "
        "x batch size x shapes x optional mlcl decoration, under a simulator-owned batch schedule and a buggified optimiser "
        "(real/scaled/teleport); non-trivial = at least one optimiser step was judged by the gradient oracle; distinct = "
        "distinct (family, gemini, solver, batch class, K, groups, dynamic, decorated, schedule plan, optimiser mode)")
STATE_MEASURE = "distinct (family, parameter array, ReLU-activation pattern or Douglas cut order, batch-size class) at judged steps"
COMPONENTS_REAL = ["gemclus forward passes (_infer) and back-propagation (_compute_grads) of all 17 gradient-trained families",
                   "gemclus GEMINI gradients, RIM/KernelRIM penalty gradients, mlcl decorators, fit and _path training loops",
                   "scikit-learn SGD/Adam moment updates"]
COMPONENTS_STUB = ["reference GEMINI scores (gemsim.refs.ref_gemini, POT emd2 called directly) as the differentiated objective",
                   "BaseOptimizer.update_params (real / scaled / teleport)", "RandomState.permutation (faithful or adversarial)",
                   "crash at an arbitrary point: seams.LineCrash (sys.settrace) raises when the k-th source line of the library is about to run, in interrupted calls of the history"]
ASSUMPTIONS = ["numerical oracle: errors below 2% of a parameter array's largest gradient entry are not decided",
               "steps with a prediction outside [1e-6, 1-1e-6] (calibrated: no alarm on the unchanged tree down to 1e-8), non-finite directions, or coordinates on a kink (one-sided "
               "derivatives disagree) are counted and skipped, not judged",
               "reference GEMINI = documented definition (p(y)-weighted KL/TV/Hellinger^2/(chi2+1)/2/MMD/W1), cross-checked "
               "against the library's scores to 1e-12 during the run (mismatch is reported as a probe, not as a C03 violation)"]

SAT_LO, SAT_HI = float(__import__("os").environ.get("GEMSIM_SAT", "1e-6")), 1 - float(__import__("os").environ.get("GEMSIM_SAT", "1e-6"))
REL_TOL = 2e-2
MAX_COORDS = 90


def generate(rng):
    cfg = sample_config(rng, n_range=(2, 12), k_range=(2, 4), max_iter_range=(1, 3), lr_choices=(1e-3, 1e-2, 0.1),
                        alpha_choices=(0.0, 0.01, 0.3), p_big=0.12)
    fam = FAMILIES[cfg["family"]]
    deco = None
    if cfg["n"] >= 3 and rng.random() < 0.3:
        deco = sample_constraints(rng, cfg["n"])
    cfg["decorate"] = deco
    if deco and rng.random() < 0.3:
        cfg["decorate2"] = sample_constraints(rng, cfg["n"], max_pairs=2)     # decorated once more, with its own factor
    cfg["n2"] = cfg["n"] if rng.random() < 0.5 else rng.randint(max(2, cfg["params"]["n_clusters"]), 12)
    # no float32 inputs here: path() then computes its affinity in single precision and the GEMINI accumulates in mixed
    # precision, which is a conditioning matter (C17), not a matter of which gradient formula is used
    cfg["layouts"] = sample_layouts(rng, float32=False)
    ops = sample_prefix(rng, cfg, p_any=0.3, max_len=3) + [{"op": "fit", "data": 0}]
    if fam.get("sparse") and cfg["d"] >= 2 and rng.random() < 0.4:
        ops.append({"op": "path", "data": 0, "args": {"alpha_multiplier": choice(rng, [3.0, 10.0]), "min_features": rng.randint(1, cfg["d"] - 1),
                                                      "max_patience": 1}})     # goes on after the first features are lost
    sigma = weighted(rng, [(0.0, 4), (0.3, 3), (1.0, 2), (3.0, 1)])
    opt = "teleport" if sigma > 0 else weighted(rng, [("real", 3), ("scaled", 1)])
    n_steps = cfg["params"]["max_iter"] * (1 if fam.get("categorical") else expected_batches(cfg["n"], cfg["params"].get("batch_size")))
    # every optimiser step of the history (prefix, judged fit, path) is judged with this probability
    expected = n_steps * (1 + 0.5 * len(ops)) + (10 if len(ops) > 1 else 0)
    p_judge = 1.0 if expected <= 6 else min(1.0, 7.0 / expected)
    faults = {"sched": sample_sched(rng, decorated=bool(deco)), "opt": opt, "opt_scale": choice(rng, [0.1, 5.0]),
              "teleport_sigma": sigma, "teleport_seed": rng.randrange(2 ** 31), "p_judge": p_judge, "judge_seed": rng.randrange(2 ** 31),
              "coord_seed": rng.randrange(2 ** 31)}
    return {"property": PROPERTY, "scenario": "step_gradient", "config": cfg, "ops": ops, "faults": faults}


def param_names(model, params):
    names = []
    for i, p in enumerate(params):
        nm = None
        for k, v in vars(model).items():
            if v is p:
                nm = k
                break
        if nm is None and hasattr(model, "cut_points_list_"):
            for (fi, cp) in model.cut_points_list_:
                if cp is p:
                    nm = "cut_points"
        names.append(nm or f"param{i}")
    return names


class GradOracle:
    def __init__(self, res, world, harness, cfg, deco, coord_rs):
        self.res, self.world, self.h, self.cfg = res, world, harness, cfg
        self.model = harness.model
        self.fam = FAMILIES[cfg["family"]]
        self.deco = deco
        self.decos = [deco] if deco else []
        self.coord_rs = coord_rs
        self.judge = set()
        self.global_step = 0

    @property
    def spec(self):
        return gemini_ref_spec(self.cfg)      # the GEMINI the user has configured NOW (set_params may have changed it)

    # the differentiated objective
    def F(self):
        m = self.model
        Xb, Ab, ids = self.h.resolve()
        # the objective is that of the model's predictions on the TRUE rows of the samples of the batch (the caller's
        # data), not on whatever array the training loop chose to forward (KernelRIM forwards kernel rows by design)
        Xc = getattr(self.world, "current_X", None)
        if Xc is not None and self.cfg["family"] != "KernelRIM" and not any(i < 0 for i in ids) \
                and np.ndim(Xc) == 2 and np.ndim(Xb) == 2 and Xc.shape[1] == Xb.shape[1] and max(ids, default=0) < len(Xc):
            Xb = np.asarray(Xc, dtype=np.float64)[ids]
        P = m._infer(Xb, retain=False)
        eps = float(getattr(self.h.sim_gemini.real, "epsilon", 1e-12)) if self.h.sim_gemini is not None else 1e-12
        if eps > 1e-9 and (P.min() < eps or P.max() > 1 - eps):
            # clipping is active (non-default epsilon): the documented definitions say nothing about clipped entries, so
            # the differentiated objective is the library's own returned score there (a change of the gradient code alone
            # is still caught; whether that score is the right number is C01)
            self.used_library_score = True
            s = float(self.h.sim_gemini.real.evaluate(P, Ab))
        else:
            s = ref_gemini(self.spec[0], self.spec[1], P, Ab)
        for deco in self.decos:
            f = deco["factor"]
            for (i, j) in deco["cannot_link"]:
                if i in ids and j in ids:
                    a, b = ids.index(i), ids.index(j)
                    s += f * 0.5 * np.sum((P[a] - P[b]) ** 2)
            for (i, j) in deco["must_link"]:
                if i in ids and j in ids:
                    a, b = ids.index(i), ids.index(j)
                    s -= f * 0.5 * np.sum((P[a] - P[b]) ** 2)
        if self.cfg["family"] == "RIM":
            s -= m.reg * np.sum(m.W_ ** 2)
        elif self.cfg["family"] == "KernelRIM":
            Kfull = self.h.cur_full
            s -= m.reg * np.trace(m.W_.T @ Kfull @ m.W_)
        return float(s)

    def central(self, p, ix, h):
        o = p[ix]
        p[ix] = o + h
        fp = self.F()
        p[ix] = o - h
        fm = self.F()
        p[ix] = o
        return (fp - fm) / (2 * h)

    def one_sided(self, p, ix, h, F0):
        o = p[ix]
        p[ix] = o + h
        fp = self.F()
        p[ix] = o + 2 * h
        fp2 = self.F()
        p[ix] = o - h
        fm = self.F()
        p[ix] = o - 2 * h
        fm2 = self.F()
        p[ix] = o
        right = (-3 * F0 + 4 * fp - fp2) / (2 * h)
        left = (3 * F0 - 4 * fm + fm2) / (2 * h)
        return left, right

    def on_step(self, world, opt, params, grads):
        self.global_step += 1
        res = self.res
        draw = self.judge_rs.rand()
        p_now = self.p_judge
        sel = getattr(self.model, "get_selection", None)
        if sel is not None and p_now < 1.0:
            # rarely reached, interesting states are judged preferentially: a sparse model that has already lost features
            try:
                if len(sel()) < self.cfg["d"]:
                    p_now = 1.0 if getattr(self.model, "dynamic", False) else 0.5
                    res.probe("steps_with_pruned_features_seen")
            except Exception:
                pass
        if not (draw < p_now):
            return
        m = self.model
        Xb, Ab, ids_now = self.h.resolve()
        if self.deco and any(i < 0 for i in ids_now):
            res.probe("steps_with_undecidable_duplicates")
            return
        P = m._infer(Xb, retain=False)
        if not np.all(np.isfinite(P)) or P.min() < SAT_LO or P.max() > SAT_HI:
            res.probe("steps_saturated")
            return
        if not all(np.all(np.isfinite(np.asarray(g))) for g in grads):
            res.probe("steps_nonfinite_direction")
            return
        for p, g in zip(params, grads):
            if np.shape(p) != np.shape(g):
                res.violate(f"C03:direction_shape:{self.cfg['family']}", {"param": list(np.shape(p)), "grad": list(np.shape(g))})
                return
        self.used_library_score = False
        F0 = self.F()
        if self.used_library_score:
            res.probe("steps_judged_in_clipped_regime_with_library_score")
        if not np.isfinite(F0):
            res.probe("steps_nonfinite_objective")
            return
        # cross-check reference vs library score on this very batch.  Where they disagree the library's closed form is
        # numerically ill-conditioned at this point (e.g. MMD one-vs-all with a cluster holding 1e-6 of the mass: a+c-2b
        # cancels to exactly 0 and half of the objective is lost in the score AND in the gradient).  That is a matter of
        # conditioning / of the score (C17, C01), not of which gradient formula is used: the step is counted, not judged.
        if not self.used_library_score:
            try:
                lib = float(self.h.sim_gemini.real.evaluate(P, Ab))
                refv = ref_gemini(self.spec[0], self.spec[1], P, Ab)
                if abs(lib - refv) > 1e-5 * max(abs(refv), abs(lib)) + 1e-13:
                    # ... but only where conditioning can explain it: some cluster holds (almost) no mass.  A score that is
                    # wrong in a well-conditioned state does not excuse the direction: the step is judged against the
                    # reference objective as usual.
                    mass = float(np.min(np.mean(np.asarray(P, dtype=np.float64), axis=0)))
                    if mass < 1e-3:
                        res.probe("steps_skipped_library_score_ill_conditioned")
                        return
                    res.probe("steps_judged_although_library_score_differs")
            except Exception:
                res.probe("steps_skipped_score_crosscheck_failed")
                return
        names = param_names(m, params)
        total = sum(int(np.size(p)) for p in params)
        res.probe("steps_judged")
        res.nontrivial = True
        if len(self.h.cur_ids) >= 1 and self.h.batch_in_epoch >= 1 and len(self.h.cur_ids) < self.cfg["n"]:
            res.probe("judged_minibatch_steps")
        if world.total_steps > 1 and world.opt_mode == "teleport":
            res.probe("judged_after_teleport")
        if self.deco and any((i in self.h.cur_ids and j in self.h.cur_ids) for i, j in self.deco["must_link"] + self.deco["cannot_link"]):
            res.probe("judged_decorated_pair_in_batch")
        self.record_state(m, params, names)
        for p, g, nm in zip(params, grads, names):
            g = np.asarray(g, dtype=np.float64)
            coords = list(np.ndindex(p.shape))
            if total > MAX_COORDS:
                k = max(4, int(MAX_COORDS * len(coords) / total))
                if k < len(coords):
                    sel = self.coord_rs.choice(len(coords), size=k, replace=False)
                    coords = [coords[i] for i in sorted(sel)]
            fd = {}
            for ix in coords:
                s = max(1.0, abs(p[ix]))
                d1 = self.central(p, ix, 1e-5 * s)
                d2 = self.central(p, ix, 2e-5 * s)
                if abs(d1 - d2) <= 1e-4 * max(abs(d1), 1e-3):
                    fd[ix] = (4 * d1 - d2) / 3
                else:
                    res.probe("coords_kinked")
            if not fd:
                continue
            res.probe("coords_judged", len(fd))
            scale = max(abs(v) for v in fd.values())
            thr = REL_TOL * scale + 1e-6 * max(1.0, abs(F0))
            for ix, v in fd.items():
                err = abs(g[ix] + v)
                if err > thr:
                    # confirm at another scale and make sure we are not sitting on a kink
                    s = max(1.0, abs(p[ix]))
                    d3 = self.central(p, ix, 1e-6 * s)
                    d4 = self.central(p, ix, 2e-6 * s)
                    left, right = self.one_sided(p, ix, 1e-6 * s, F0)
                    smooth = abs(left - right) <= 1e-3 * max(abs(left), abs(right), 1e-3) + 1e-6
                    v2 = (4 * d3 - d4) / 3
                    if not smooth or abs(d3 - d4) > 1e-3 * max(abs(d3), 1e-3) or abs(v2 - v) > 0.25 * thr + 1e-3 * abs(v):
                        res.probe("suspects_dismissed_as_kink")
                        continue
                    if abs(g[ix] + v2) <= thr:
                        res.probe("suspects_dismissed_on_recheck")
                        continue
                    res.violate(f"C03:direction:{self.cfg['family']}.{nm}",
                                {"param": nm, "index": [int(t) for t in ix], "handed": float(g[ix]), "expected": float(-v2),
                                 "abs_err": float(err), "threshold": float(thr), "array_max_grad": float(scale),
                                 "step": self.global_step, "batch_ids": self.h.cur_ids,
                                 "gemini": list(self.spec)}, seq=world.log.seq)
                    break

    def record_state(self, m, params, names):
        fam = self.cfg["family"]
        key = fam
        if hasattr(m, "H_") and self.fam.get("mlp"):
            pat = (np.asarray(m.H_) > 0)
            key += ":relu=" + "".join("1" if b else "0" for b in pat.any(0))
        if fam == "Douglas" and hasattr(m, "_all_orders"):
            key += ":orders=" + "|".join(",".join(str(int(o)) for o in od) for od in m._all_orders)
        bs = self.cfg["params"].get("batch_size")
        key += ":b=" + ("full" if bs is None or bs >= self.cfg["n"] else ("1" if bs == 1 else "mini"))
        self.res.state_keys.add(key)


def execute(record):
    res = Result()
    log = EventLog()
    cfg = record["config"]
    faults = record.get("faults", {})
    import random
    rng = random.Random(record.get("run_seed", 0) ^ 0xC03)
    try:
        X = make_data(cfg)
        A = make_affinity(cfg, X)
        model = build_model(cfg, log)
        world = World(log, res, rng)
        world.opt_mode = faults.get("opt", "real")
        world.opt_scale = faults.get("opt_scale", 1.0)
        world.teleport_sigma = faults.get("teleport_sigma", 0.0)
        world.teleport_rs = np.random.RandomState(faults.get("teleport_seed", 0))
        if cfg["family"] == "Douglas" and world.opt_mode == "teleport":
            # bin memberships underflow when cut points jump by many temperatures: scale the jumps to the temperature
            world.teleport_sigma = min(world.teleport_sigma, cfg["params"].get("temperature", 1.0))
        deco = cfg.get("decorate")
        h = ModelHarness(world, model, cfg["family"], sched_plan=faults.get("sched", []))
        if deco:
            try:
                with quiet():
                    decorate(model, deco)
                h.pairs = [tuple(p) for p in deco["must_link"] + deco["cannot_link"]]
                res.probe("decorated_runs")
            except ValueError:
                res.probe("decoration_rejected")
                deco = None
        deco2 = cfg.get("decorate2") if deco else None
        if deco2:
            try:
                with quiet():
                    decorate(model, deco2)
                h.pairs = h.pairs + [tuple(p) for p in deco2["must_link"] + deco2["cannot_link"]]
                res.probe("stacked_decorations")
            except ValueError:
                deco2 = None
        h.wrap_batchify()
        oracle = GradOracle(res, world, h, cfg, deco, np.random.RandomState(faults.get("coord_seed", 0)))
        if deco2:
            oracle.decos.append(deco2)
        oracle.judge_rs = np.random.RandomState(faults.get("judge_seed", 0))
        oracle.p_judge = faults.get("p_judge", 1.0)
        world.step_hooks.append(oracle.on_step)
        world.val_budget = 400
        world.step_budget = 4000
        import copy as _copy
        cur_cfg = _copy.deepcopy(cfg)
        oracle.cfg = cur_cfg
        X1, A1 = second_dataset(cfg)
        lay = cfg.get("layouts") or ["C", "C"]
        pool = [(apply_layout(X, lay[0]), A), (apply_layout(X1, lay[1]), A1)]
        with world, quiet():
            for op in record["ops"]:
                outcome = run_generic_op(op, model, world, pool, cur_cfg, res, log)
                if op["op"] == "path" and outcome == "ok":
                    res.probe("paths_run")
                if outcome.startswith("raised"):
                    # whether fit/path complete is not this property's statement (C04/C07/C17)
                    res.probe("op_raised:" + op["op"] + ":" + outcome.split(":")[1])
        if log.counts.get("STEP", 0) == 0 and not any(k.startswith("op_raised") or k.endswith("_crashed") for k in res.probes):
            res.probe("seam_silent_in_run")   # decided over the whole batch by the runner (KEY_EVENT)
    except SimBudget:
        res.probe("budget_exhausted")
    except HarnessError as e:
        res.harness_error = "HarnessError: " + str(e)
    res.signature = config_signature(cfg) + "|" + ",".join(faults.get("sched", []) or ["faithful"]) + "|" + faults.get("opt", "real")
    res.digest = log.digest()
    res.events = dict(log.counts)
    return res
