"""C08 / C09 — KAURI: gains are real objective increases and the chosen split is the best one (C08); structural limits and
self-consistent routing (C09).  One simulation, two oracles, reported separately and never cross-attributed.

The simulator owns (a) the per-step random feature subset (a RandomState subclass passed as Kauri(random_state=...)) and
(b) the module attribute gemclus.tree.kauri.find_best_split: at every growth step it sees the whole intermediate state,
calls the real compiled finder, checks it against a brute-force enumeration of every admissible alternative, and
— steering, the KAURI buggify — sometimes returns a different admissible split so that later steps start from
states a greedy run never visits."""
import copy

import numpy as np

from ..core import EventLog, Result, SimFault, SimBudget, HarnessError, choice, weighted, fhex
from ..refs import kkmeans_objective, enumerate_splits, split_kind, tree_route
from ..seams import World, SimRandomState
from .common import exc_site, is_harness_frame, quiet

RULE = {
    "C08": ("one run = Kauri.fit on a seeded dataset (continuous / tied integers / duplicated rows / constant columns) x kernel "
            "(6 named + precomputed PSD/indefinite) x max_clusters x min_samples_leaf/split x max_features/depth/leaves, with the "
            "feature-subset RNG and (with probability p) the split choice owned by the simulator; non-trivial = some growth step had "
            ">= 2 admissible assignment kinds; distinct = distinct (kernel, max_clusters, limits, steering, sequence of chosen kinds)"),
    "C09": ("same runs as C08 with wider limit combinations (n from 1); non-trivial = the tree was split at least once; distinct = "
            "distinct (limits, kernel class, data kind, number of leaves, depth)"),
}
KEY_EVENT = "SPLIT_SEARCH"
STATE_MEASURE = ("abstract KAURI growth states reached: (n_clusters, max_clusters, sorted leaves-per-cluster counts, set of admissible "
                 "assignment kinds) at SPLIT_SEARCH events")
COMPONENTS_REAL = ["gemclus.tree.kauri.Kauri.fit / Tree / predict / score", "compiled gemclus.tree._utils.find_best_split and gemini_objective (prebuilt extension)",
                   "the SOURCE gemclus/tree/_utils.pyx of the working tree, de-cythonised (gemsim/pyx2py.py) and executed on the same states (no Cython offline)",
                   "scikit-learn pairwise kernels and validation"]
COMPONENTS_STUB = ["RandomState.choice (feature subsets: faithful / first / last / adversary)",
                   "find_best_split interposer: always calls the real finder; steering returns another admissible split with probability p",
                   "crash at an arbitrary point: seams.LineCrash (sys.settrace) raises when the k-th source line of the library is about to run, in interrupted calls of the history"]
ASSUMPTIONS = ["the Cython source cannot be rebuilt offline: results describe the prebuilt extension plus kauri.py (see evidence extension_fingerprint)",
               "gain comparisons use tolerance 1e-9*max(1,|J|,sum|K|) because the finder accumulates kernel stocks incrementally",
               "brute force enumerates observed thresholds that separate two distinct values, as the property states"]

KERNELS = ["linear", "rbf", "laplacian", "polynomial", "sigmoid", "cosine"]


def generate_for(prop, rng):
    big = rng.random() < 0.08
    n = rng.randint(1 if prop == "C09" else 2, 14) if not big else rng.randint(15, 30)
    d = rng.randint(1, 4) if not big else rng.randint(3, 7)
    kind = weighted(rng, [("continuous", 4), ("integers", 3), ("duplicates", 1.5), ("constant_col", 1),
                          ("offset", 0.8), ("tiny", 0.6), ("near_ties", 0.8)])
    msl = weighted(rng, [(1, 5), (2, 2), (3, 1)])
    mss = max(2, 2 * msl + weighted(rng, [(0, 3), (1, 1), (2, 1), (4, 1)]))
    p = dict(max_clusters=rng.randint(1, 6), max_depth=weighted(rng, [(None, 3), (1, 1), (2, 1), (3, 1)]),
             min_samples_leaf=msl, min_samples_split=mss,
             max_features=weighted(rng, [(None, 3), (1, 1), (2, 1), (5, 0.5)]),
             max_leaves=weighted(rng, [(None, 3), (2, 1), (3, 1), (5, 1)]),
             kernel=choice(rng, KERNELS + KERNELS + ["precomputed"] * 4 + [choice(rng, ["callable:rbf", "callable:laplacian"])]))
    if big:
        p["max_clusters"] = rng.randint(4, 9)
        p["max_leaves"] = weighted(rng, [(None, 3), (6, 1), (9, 1)])
        p["max_depth"] = weighted(rng, [(None, 3), (3, 1), (4, 1), (5, 1)])
    if prop == "C08" and rng.random() < 0.7 and not big:
        p["max_clusters"] = rng.randint(3, 7)    # the double-star / reallocation branches need room
        if rng.random() < 0.6:
            p["max_depth"], p["max_leaves"] = None, None
    cfg = dict(family="Kauri", params=p, n=n, d=d, data_seed=rng.randrange(2 ** 31), data_kind=kind,
               rs_seed=rng.randrange(10000))
    if p["kernel"] == "precomputed":
        cfg["affinity_src"] = choice(rng, ["linear", "rbf", "indefinite", "polynomial"])
    if rng.random() < 0.08:
        cfg["np_scalars"] = True            # limits that come out of numpy computations: np.int64 is numbers.Integral
    faults = {"subset_mode": weighted(rng, [("faithful", 3), ("first", 1), ("last", 1), ("adversary", 2)]),
              "steer_p": weighted(rng, [(0.0, 4), (0.3, 3), (0.6, 3)]), "steer_seed": rng.randrange(2 ** 31),
              "steer_bias": weighted(rng, [("uniform", 2), ("switch_early", 2)])}
    ops = []
    if rng.random() < 0.3:
        kinds = [("fit", 3), ("score", 2), ("predict", 1.5), ("set_params", 3), ("fit_no_kernel", 2), ("score_no_kernel", 2), ("bad_fit", 1),
                 ("crash_fit", 2)]
        for _ in range(rng.randint(1, 4)):
            k = weighted(rng, kinds)
            op = {"op": k, "data": rng.randrange(2)}
            if k == "set_params":
                op["change"] = choice(rng, [["max_clusters", rng.randint(1, 6)], ["max_features", choice(rng, [None, 1, 2])],
                                            ["max_depth", choice(rng, [None, 1, 2, 3])], ["max_leaves", choice(rng, [None, 2, 3, 5])],
                                            ["kernel", choice(rng, KERNELS)], ["kernel", choice(rng, KERNELS + ["callable:linear"])],
                                            ["min_samples_split", max(2, 2 * msl + rng.randint(0, 3))], ["verbose", True]])
            if k == "bad_fit":
                op["bad"] = choice(rng, [["max_clusters", 0], ["min_samples_split", 1], ["min_samples_leaf", 0]])
            if k == "crash_fit":
                # an earlier fit of the same object is interrupted when the k-th source line of the library is about to run
                import math
                op["crash"] = {"seam": "line", "at": int(math.exp(rng.uniform(0.0, math.log(3000))))}
            ops.append(op)
    ops.append({"op": "fit", "data": 0})
    for op in ops:
        if op["op"] == "fit" and rng.random() < 0.12:
            # a second argument although the kernel is not "precomputed": documented as not used (API consistency)
            op["stray_y"] = choice(rng, ["matrix", "labels"])
    cfg["n2"] = n if rng.random() < 0.5 else rng.randint(2, 14)
    return {"scenario": "kauri_growth", "config": cfg, "ops": ops, "faults": faults}


def make_kauri_data(cfg, which=0):
    rs = np.random.RandomState((cfg["data_seed"] + 104729 * which) % (2 ** 31))
    n, d = (cfg["n"] if which == 0 else cfg.get("n2", cfg["n"])), cfg["d"]
    kind = cfg.get("data_kind", "continuous")
    if kind == "integers":
        lo = 0 if rs.rand() < 0.6 else -2          # grids that contain the origin / are centred on it
        X = rs.randint(lo, lo + 4, size=(n, d)).astype(np.float64)
    else:
        X = rs.normal(size=(n, d))
    if kind == "duplicates" and n >= 2:
        for _ in range(max(1, n // 3)):
            i, j = rs.randint(n), rs.randint(n)
            X[i] = X[j]
    if kind == "constant_col":
        X[:, rs.randint(d)] = 1.0
    if kind == "offset":
        X = X + 10.0 ** rs.randint(3, 8)                 # un-centred measurements, timestamps
    if kind == "tiny":
        X = X * 10.0 ** (-rs.randint(6, 11))
    if kind == "near_ties" and n >= 2:
        # distinct values that differ only in the last bits (relative 1e-7 .. 1e-15)
        for _ in range(max(1, n // 3)):
            i, j = rs.randint(n), rs.randint(n)
            if i != j:
                X[i] = X[j] * (1.0 + 10.0 ** (-rs.randint(7, 16))) + (1e-300 if rs.rand() < 0.2 else 0.0)
                if rs.rand() < 0.4:
                    # neighbouring doubles (0.3 and 0.1 + 0.2): no double lies strictly between the two values
                    X[i] = np.nextafter(X[j], np.inf if rs.rand() < 0.5 else -np.inf)
    A = None
    if cfg["params"]["kernel"] == "precomputed":
        from sklearn.metrics import pairwise_kernels
        src = cfg.get("affinity_src", "linear")
        if src == "indefinite":
            M = rs.normal(size=(n, n))
            A = (M + M.T) / 2
        else:
            A = pairwise_kernels(X, metric=src)
            A = (A + A.T) / 2
        A = np.ascontiguousarray(A, dtype=np.float64)
    return X, A


def delta_J(labels, new_labels, kernel, affected):
    s = 0.0
    for k in affected:
        idx = np.where(new_labels == k)[0]
        if len(idx):
            s += kernel[np.ix_(idx, idx)].sum() / len(idx)
        idx = np.where(labels == k)[0]
        if len(idx):
            s -= kernel[np.ix_(idx, idx)].sum() / len(idx)
    return float(s)


def enumerate_fast(kernel, X, leaves, Y, Z, n_clusters, K_max, min_leaf, feats):
    """Same enumeration as refs.enumerate_splits with the objective difference restricted to the affected clusters (each
    cluster term still computed directly from the definition)."""
    labels = (Y @ Z).argmax(0)
    sizes = Y @ Z.sum(1)
    out = []
    for j in leaves:
        j = int(j)
        idx = np.nonzero(Z[j])[0]
        k = int(Y[:, j].argmax())
        n_leaf = len(idx)
        whole = (n_leaf == sizes[k])
        for f in feats:
            f = int(f)
            vals = np.unique(X[idx, f])
            for t in vals[:-1]:
                left = idx[X[idx, f] <= t]
                right = idx[X[idx, f] > t]
                if len(left) < min_leaf or len(right) < min_leaf:
                    continue
                cands = []
                if n_clusters < K_max - 1 and not whole:
                    cands.append((n_clusters, n_clusters + 1))
                if n_clusters < K_max:
                    cands += [(n_clusters, k), (k, n_clusters)]
                if n_clusters >= 2:
                    for kp in range(n_clusters):
                        if kp != k:
                            cands += [(kp, k), (k, kp)]
                if n_clusters >= 3 and not whole:
                    for a in range(n_clusters):
                        for b in range(n_clusters):
                            if a != k and b != k and a != b:
                                cands.append((a, b))
                for lt, rt in cands:
                    lab = labels.copy()
                    lab[left] = lt
                    lab[right] = rt
                    g = delta_J(labels, lab, kernel, {k, lt, rt})
                    out.append(dict(gain=g, kind=split_kind(k, n_clusters, lt, rt), leaf=j, feature=f, threshold=float(t),
                                    left_target=int(lt), right_target=int(rt)))
    return labels, out


class KauriOracle:
    def __init__(self, res, world, cfg, faults, X, kernel_matrix, steer_rng):
        self.res, self.world, self.cfg, self.faults = res, world, cfg, faults
        self.X = X
        self.p = cfg["params"]
        self.steer_p = faults.get("steer_p", 0.0)
        self.steer_rng = steer_rng
        self.steered = False
        self.events = 0
        self.expected_labels = None
        self.depth = {0: 0}            # mirror: leaf id -> depth
        self.leaf_node = {0: 0}        # mirror: leaf id -> node id
        self.applied = []              # (node, returned gain, kind)
        self.last_gain = None
        self.kinds_chosen = []
        self.saw_double_star = False
        self.finder_exception = None
        self.finder_tag = "other"
        self.expected_kernel = kernel_matrix
        self.n = len(X)
        from .. import pyx2py
        ns, info = pyx2py.load()
        self.pyx = ns
        if ns is None:
            res.probe("pyx_source_not_loadable")

    def violate(self, cls, detail):
        self.res.violate(cls, detail, seq=self.world.log.seq)

    def __call__(self, world, real, kernel, X, leaves, Y, Z, n_clusters, K_max, n_leaves, min_leaf, feats):
        res = self.res
        self.events += 1
        leaves = np.asarray(leaves)
        labels = (Y @ Z).argmax(0)
        # ---------------- C08 across events: the state we see is the previous one with the returned split applied
        if self.expected_labels is not None and not np.array_equal(labels, self.expected_labels):
            self.violate("C08:apply_mismatch", {"event": self.events, "got": labels.tolist(), "want": self.expected_labels.tolist()})
        # ---------------- C09 per event: which leaves are offered, how many leaves exist
        p = self.p
        max_leaves = p["max_leaves"] if p["max_leaves"] is not None else self.n
        max_depth = p["max_depth"] if p["max_depth"] is not None else self.n
        if n_leaves >= max_leaves:
            self.violate("C09:max_leaves", {"n_leaves": int(n_leaves), "max_leaves": max_leaves, "when": "search started"})
        for j in leaves:
            j = int(j)
            size = int(Z[j].sum())
            if size < p["min_samples_split"]:
                self.violate("C09:explored_small_leaf" + (":root" if n_leaves == 1 else ""),
                             {"leaf": j, "size": size, "min_samples_split": p["min_samples_split"]})
            if self.depth.get(j, 0) >= max_depth:
                self.violate("C09:explored_deep_leaf", {"leaf": j, "depth": self.depth.get(j), "max_depth": max_depth})
        # C08: the best admissible split is searched among ALL leaves that may still be split: a leaf that satisfies the
        # structural limits and still offers a threshold (two distinct values on some feature, whichever features are drawn
        # at this step) must be offered to the finder
        offered = set(int(j) for j in leaves)
        for j in range(int(n_leaves)):
            if j in offered:
                continue
            idx = np.where(Z[j] == 1)[0]
            if len(idx) >= p["min_samples_split"] and self.depth.get(j, 0) < max_depth and len(idx) >= 2 * int(min_leaf):
                Xj = X[idx]
                if bool(np.any(Xj.max(axis=0) > Xj.min(axis=0))):
                    self.violate("C08:splittable_leaf_not_offered", {"leaf": j, "size": int(len(idx)), "depth": self.depth.get(j, 0),
                                                                     "offered": sorted(offered), "event": self.events})
                    break
        # C08: the objective is the user's kernel — the matrix handed to the finder must be the kernel of THIS call
        if self.events == 1 and self.expected_kernel is not None:
            ek = self.expected_kernel
            if np.shape(kernel) != np.shape(ek) or not np.allclose(kernel, ek, rtol=1e-12, atol=1e-12):
                self.violate("C08:kernel_mismatch", {"what": "the kernel used for growth is not the kernel of this call "
                                                             "(named kernel of the data, or the user's precomputed matrix)"})
        # C08: the candidate features handed to the finder are exactly the subset drawn for this step
        lc = getattr(self.rs, "last_choice", None)
        want_k = X.shape[1] if p["max_features"] is None else min(X.shape[1], max(p["max_features"], 1))
        if lc is None or not np.array_equal(np.asarray(feats), np.asarray(lc[2])) or len(feats) != want_k \
                or len(set(int(v) for v in feats)) != len(feats):
            self.violate("C08:feature_subset", {"handed": [int(v) for v in feats], "drawn": None if lc is None else [int(v) for v in lc[2]],
                                                "expected_size": want_k})
        self.rs.last_choice = None
        # a state in which the double-star branch is evaluated with a feature id >= n_samples: the (known) double-star
        # formula indexes a SAMPLE axis with the feature id there
        sizes_c = Y @ Z.sum(1)
        ds_oob = bool(n_clusters < K_max - 1 and len(feats) and max(int(f) for f in feats) >= X.shape[0] and
                      any(int(Z[int(j)].sum()) != int(sizes_c[int(Y[:, int(j)].argmax())]) and int(Z[int(j)].sum()) >= 2 * int(min_leaf)
                          for j in leaves))
        self.finder_tag = "double_star_feature_id_ge_n_samples" if ds_oob else "other"
        try:
            sp = real(kernel, X, leaves, Y, Z, n_clusters, K_max, n_leaves, min_leaf, feats)
        except (SimFault, SimBudget):
            raise
        except Exception as e:
            self.finder_exception = type(e).__name__
            self.violate(f"C08:raised:{type(e).__name__}@find_best_split:{self.finder_tag}", {"msg": str(e)[:200], "event": self.events})
            raise
        world.log.emit("SPLIT_SEARCH", ev=self.events, n_leaves=int(n_leaves), n_clusters=int(n_clusters),
                       leaves=[int(v) for v in leaves], feats=[int(v) for v in feats], gain=fhex(sp.gain),
                       leaf=int(sp.leaf), f=int(sp.feature), t=fhex(sp.threshold), lt=int(sp.left_target), rt=int(sp.right_target))
        labels, alts = enumerate_fast(kernel, X, leaves, Y, Z, int(n_clusters), int(K_max), int(min_leaf), feats)
        base = kkmeans_objective(labels, kernel)
        tol = 1e-9 * max(1.0, abs(base), float(np.abs(kernel).sum()))
        kinds_here = sorted({a["kind"] for a in alts})
        sizes = sorted(int(v) for v in (Y[:n_clusters] @ np.ones(Y.shape[1], dtype=np.int64))) if n_clusters else []
        res.state_keys.add(f"{int(n_clusters)}/{int(K_max)}/{sizes}/{kinds_here}")
        if len(kinds_here) >= 2:
            res.nontrivial = True
        for kd in kinds_here:
            res.probe("admissible_" + kd)
        best = max(alts, key=lambda a: a["gain"]) if alts else None
        chosen_kind = self.judge_split(sp, "ext", alts, best, labels, base, tol, kernel, X, Y, Z, leaves, feats, min_leaf, n_clusters, K_max)
        # the same oracles on the answer of the de-cythonised SOURCE (gemclus/tree/_utils.pyx of the working tree)
        if self.pyx is not None:
            try:
                sp2 = self.pyx["find_best_split"](kernel, X, leaves, Y, Z, n_clusters, K_max, n_leaves, min_leaf, feats)
            except Exception as e:
                sp2 = None
                res.probe("pyx_source_raised:" + type(e).__name__)
                self.violate("C08:raised:" + type(e).__name__ + "@_utils.pyx:find_best_split:" + self.finder_tag, {"msg": str(e)[:200], "event": self.events})
            if sp2 is not None:
                res.probe("pyx_source_events")
                a = (sp.gain, sp.leaf, sp.left_target, sp.right_target, sp.feature, sp.threshold)
                b = (sp2.gain, sp2.leaf, sp2.left_target, sp2.right_target, sp2.feature, sp2.threshold)
                if not (abs(a[0] - b[0]) <= tol and (a[1:] == b[1:] or (a[0] <= 0 and b[0] <= 0))):
                    res.probe("pyx_source_differs_from_extension")
                    self.judge_split(sp2, "pyx", alts, best, labels, base, tol, kernel, X, Y, Z, leaves, feats, min_leaf, n_clusters, K_max)
        # ---------------- steering
        out = sp
        if alts and self.steer_p > 0 and self.steer_rng.random() < self.steer_p:
            kd = kinds_here[self.steer_rng.randrange(len(kinds_here))]
            if self.faults.get("steer_bias") == "switch_early" and "switch" in kinds_here and n_leaves <= 4 and self.steer_rng.random() < 0.7:
                kd = "switch"   # a cluster owning several leaves early is what opens the double-star / reallocation branches
            pool = [a for a in alts if a["kind"] == kd]
            a = pool[self.steer_rng.randrange(len(pool))]
            from gemclus.tree._utils import Split
            out = Split(a["gain"] if a["gain"] > 0 else 1e-9, a["leaf"], a["left_target"], a["right_target"], a["feature"],
                        a["threshold"], False)
            self.steered = True
            res.fault("steer_split")
            res.probe("steered_to_" + kd)
            world.log.emit("FAULT", kind="steer_split", to=kd, leaf=a["leaf"], f=a["feature"], t=fhex(a["threshold"]),
                           lt=a["left_target"], rt=a["right_target"])
            chosen_kind = kd
        # ---------------- bookkeeping for the next event
        self.last_gain = float(out.gain)
        if out.gain > 0:
            j = int(out.leaf)
            idx = np.nonzero(Z[j])[0]
            left = idx[X[idx, out.feature] <= out.threshold]
            right = idx[X[idx, out.feature] > out.threshold]
            # C09: the split that is applied
            if len(left) < min_leaf or len(right) < min_leaf:
                self.violate("C09:min_samples_leaf", {"left": len(left), "right": len(right), "min_samples_leaf": int(min_leaf)})
            vals = X[idx, out.feature]
            if out.threshold not in vals:
                self.violate("C09:threshold_unobserved", {"threshold": float(out.threshold)})
            exp = labels.copy()
            exp[left] = out.left_target
            exp[right] = out.right_target
            self.expected_labels = exp
            dpt = self.depth.get(j, 0) + 1
            self.depth[j] = dpt
            self.depth[int(n_leaves)] = dpt
            node = self.leaf_node.get(j, 0)
            self.applied.append((node, float(out.gain), chosen_kind))
            self.leaf_node[j] = 2 * int(n_leaves) - 1
            self.leaf_node[int(n_leaves)] = 2 * int(n_leaves)
            self.kinds_chosen.append(chosen_kind or "?")
            if chosen_kind == "double_star":
                self.saw_double_star = True
        else:
            self.expected_labels = labels.copy()
        return out

    def judge_split(self, sp, engine, alts, best, labels, base, tol, kernel, X, Y, Z, leaves, feats, min_leaf, n_clusters, K_max):
        """C08 oracles (i)-(iii) on one answer of a split finder.  `engine` is "ext" (compiled extension, what Kauri.fit
        uses) or "pyx" (the de-cythonised source of the working tree)."""
        res = self.res
        chosen_kind = None
        if sp.gain > 0:
            if not (0 <= int(sp.leaf) < Y.shape[1]) or not (0 <= int(sp.feature) < X.shape[1]):
                self.check_inadmissible(sp, X, Z, leaves, feats, min_leaf, n_clusters, K_max)
                return None
            k = int(Y[:, sp.leaf].argmax())
            chosen_kind = split_kind(k, int(n_clusters), int(sp.left_target), int(sp.right_target))
            if engine == "ext":
                res.probe("chosen_" + chosen_kind)
            match = [a for a in alts if a["leaf"] == sp.leaf and a["feature"] == sp.feature and a["threshold"] == sp.threshold
                     and a["left_target"] == sp.left_target and a["right_target"] == sp.right_target]
            if not match:
                self.check_inadmissible(sp, X, Z, leaves, feats, min_leaf, n_clusters, K_max)
                idx = np.nonzero(Z[sp.leaf])[0]
                lab = labels.copy()
                lab[idx[X[idx, sp.feature] <= sp.threshold]] = sp.left_target
                lab[idx[X[idx, sp.feature] > sp.threshold]] = sp.right_target
                actual = kkmeans_objective(lab, kernel) - base
            else:
                actual = match[0]["gain"]
            if abs(actual - sp.gain) > tol:
                self.violate("C08:gain_mismatch:" + chosen_kind, {"claimed": float(sp.gain), "actual": float(actual), "event": self.events,
                                                                 "n_clusters": int(n_clusters), "K_max": int(K_max), "engine": engine})
            if best is not None and best["gain"] > max(sp.gain, actual) + tol:
                self.violate(f"C08:not_best:chosen={chosen_kind}:missed={best['kind']}",
                             {"chosen_gain": float(sp.gain), "actual_gain_of_chosen": float(actual), "best": best, "event": self.events,
                              "engine": engine})
        else:
            if best is not None and best["gain"] > tol:
                self.violate(f"C08:false_stop:missed={best['kind']}", {"returned_gain": float(sp.gain), "best": best, "event": self.events,
                                                                       "engine": engine})
        return chosen_kind

    def check_inadmissible(self, sp, X, Z, leaves, feats, min_leaf, n_clusters, K_max):
        why = []
        if int(sp.leaf) not in [int(v) for v in leaves]:
            why.append("leaf_not_explorable")
        if int(sp.feature) not in [int(v) for v in feats]:
            why.append("feature_not_in_subset")
        if max(sp.left_target, sp.right_target) >= K_max:
            why.append("target_beyond_max_clusters")
        self.violate("C09:split_inadmissible:" + ("+".join(why) or "other"),
                     {"leaf": int(sp.leaf), "feature": int(sp.feature), "threshold": float(sp.threshold),
                      "targets": [int(sp.left_target), int(sp.right_target)]})


def final_checks(res, oracle, model, cfg, X, A, kernel_matrix, query_rs):
    p = cfg["params"]
    n = len(X)
    t = model.tree_
    leaves = [i for i in range(t.n_nodes) if t.children_left[i] == -1]
    nl = len(leaves)
    max_leaves = p["max_leaves"] if p["max_leaves"] is not None else n
    max_depth = p["max_depth"] if p["max_depth"] is not None else n
    V = res.violate
    if nl > max(max_leaves, 1):
        V("C09:max_leaves", {"leaves": nl, "max_leaves": max_leaves, "when": "end"})
    if max(t.depths) > max_depth:
        V("C09:max_depth", {"depth": max(t.depths), "max_depth": max_depth})
    labs = np.unique(model.labels_)
    if len(labs) > p["max_clusters"]:
        V("C09:max_clusters", {"clusters": len(labs), "max_clusters": p["max_clusters"]})
    if not np.array_equal(labs, np.arange(len(labs))):
        V("C09:labels_not_contiguous", {"labels": labs.tolist()})
    if t.n_nodes != 2 * nl - 1 or len(t.children_left) != t.n_nodes:
        V("C09:node_count", {"nodes": t.n_nodes, "leaves": nl})
    lv, cnt = np.unique(model.leaves_, return_counts=True)
    if len(lv) != nl:
        V("C09:empty_leaf", {"leaves_with_samples": len(lv), "leaves": nl})
    if nl > 1 and cnt.min() < p["min_samples_leaf"]:
        V("C09:min_samples_leaf", {"sizes": cnt.tolist(), "min_samples_leaf": p["min_samples_leaf"], "when": "end"})

    def walk(node, idx):
        if t.children_left[node] == -1:
            return
        if len(idx) < p["min_samples_split"]:
            V("C09:explored_small_leaf" + (":root" if node == 0 else ""), {"node": node, "size": len(idx), "when": "end"})
        f, th = t.features[node], t.thresholds[node]
        vals = X[idx, f]
        if th not in vals or not (vals > th).any():
            V("C09:threshold_unobserved", {"node": node, "threshold": float(th), "when": "end"})
        walk(t.children_left[node], idx[vals <= th])
        walk(t.children_right[node], idx[vals > th])
    walk(0, np.arange(n))
    # each leaf exactly one target in range
    for lf in leaves:
        if not (0 <= t.target[lf] < p["max_clusters"]):
            V("C09:leaf_target", {"leaf": lf, "target": t.target[lf]})
    try:
        pred = model.predict(X)
    except (SimFault, SimBudget):
        raise
    except Exception as e:
        if is_harness_frame(e):
            raise
        V("C09:raised:" + type(e).__name__ + "@predict", {"msg": str(e)[:200]})
        return
    if not np.array_equal(pred, model.labels_):
        V("C09:predict_vs_labels", {"predict": pred.tolist(), "labels": model.labels_.tolist()})
    # fresh query points, including values equal to thresholds
    d = X.shape[1]
    Q = query_rs.normal(size=(12, d)) * 1.5
    used = [(t.features[i], t.thresholds[i]) for i in range(t.n_nodes) if t.children_left[i] != -1]
    for r, (f, th) in enumerate(used[:6]):
        Q[r, f] = th
    if used:
        Q[6:9] = X[query_rs.randint(n, size=3)]
        for r, (f, th) in enumerate(used[:3]):
            Q[9 + r] = X[query_rs.randint(n)]
            Q[9 + r, f] = np.nextafter(th, np.inf if r % 2 == 0 else -np.inf)    # one ulp beside the threshold
    Q = np.vstack([Q, np.zeros((1, d)), -np.abs(Q[:1]), np.zeros((1, d))])      # the origin is a point like any other
    got = model.predict(Q)
    want = np.array([tree_route(t, q)[0] for q in Q])
    if not np.array_equal(got, want):
        V("C09:routing", {"got": got.tolist(), "want": want.tolist()})
    # the label of a point does not depend on the batch it is predicted in: one row at a time, and pairs of rows
    rows = [int(v) for v in query_rs.permutation(n)[:6]]
    zero_rows = [int(i) for i in np.where(~X.any(axis=1))[0][:3]]
    for i in dict.fromkeys(rows + zero_rows):
        one = model.predict(X[i:i + 1])
        if one.shape != (1,) or int(one[0]) != int(model.labels_[i]):
            V("C09:predict_vs_labels:single_row", {"row": i, "x": X[i].tolist(), "got": one.tolist(), "label": int(model.labels_[i])})
            break
    for r in range(0, len(Q) - 1, 2):
        two = model.predict(Q[r:r + 2])
        if not np.array_equal(two, want[r:r + 2]):
            V("C09:routing:small_batch", {"rows": [r, r + 1], "got": two.tolist(), "want": want[r:r + 2].tolist()})
            break
    try:
        sc = model.score(X, A)
    except (SimFault, SimBudget):
        raise
    except Exception as e:
        if is_harness_frame(e):
            raise
        V("C09:raised:" + type(e).__name__ + "@score", {"msg": str(e)[:200]})
        return
    ref = kkmeans_objective(pred, kernel_matrix)
    tol = 1e-9 * max(1.0, abs(ref), float(np.abs(kernel_matrix).sum()))
    if abs(sc - ref) > tol:
        V("C09:score", {"score": float(sc), "objective_of_predicted_labels": ref, "engine": "ext"})
    if oracle.pyx is not None:
        try:
            sc2 = float(oracle.pyx["gemini_objective"](np.asarray(pred, dtype=np.int64), kernel_matrix))
            if abs(sc2 - ref) > tol:
                V("C09:score", {"score": sc2, "objective_of_predicted_labels": ref, "engine": "pyx"})
        except Exception as e:
            V("C09:raised:" + type(e).__name__ + "@_utils.pyx:gemini_objective", {"msg": str(e)[:200]})
    # ---------------- C08 end of run
    gains = t.gains
    for node, g, kd in oracle.applied:
        if node >= len(gains) or gains[node] != g:
            V("C08:gain_record", {"node": node, "recorded": gains[node] if node < len(gains) else None, "returned": g})
            break
    if sum(1 for g in gains if g != 0) > len(oracle.applied):
        V("C08:gain_record", {"why": "gain stored on a node that was never split", "gains": [float(g) for g in gains]})
    if not oracle.steered:
        root = kkmeans_objective(np.zeros(n, dtype=int), kernel_matrix)
        tot = root + float(sum(gains))
        if abs(sc - tot) > tol * 10:
            V("C08:telescoping" + (":with_double_star" if oracle.saw_double_star else ""),
              {"score": float(sc), "root_plus_gains": tot, "kinds": oracle.kinds_chosen})
    # growth stops only when no admissible split has positive gain or a structural limit is hit
    if oracle.last_gain is not None and oracle.last_gain > 0 and nl < max_leaves:
        sizes = {int(l): int(c) for l, c in zip(lv, cnt)}
        explorable = [l for l in sizes if sizes[l] >= p["min_samples_split"] and oracle.depth.get(l, 0) < max_depth]
        d_all = X.shape[1]
        if explorable and (p["max_features"] is None or p["max_features"] >= d_all):
            # reconstruct the final state and ask the brute force whether anything admissible with positive gain is left
            L = int(max(model.leaves_)) + 1
            Zf = np.zeros((L, n), dtype=np.int64)
            Zf[model.leaves_, np.arange(n)] = 1
            Kc = int(p["max_clusters"])
            Yf = np.zeros((Kc, L), dtype=np.int64)
            for l in range(L):
                members = np.where(model.leaves_ == l)[0]
                if len(members):
                    Yf[int(model.labels_[members[0]]), l] = 1
            n_clusters = len(np.unique(model.labels_))
            _, alts = enumerate_fast(kernel_matrix, X, np.array(explorable), Yf, Zf, n_clusters, Kc, int(p["min_samples_leaf"]),
                                     np.arange(d_all))
            tol2 = 1e-9 * max(1.0, abs(ref), float(np.abs(kernel_matrix).sum()))
            best = max(alts, key=lambda a: a["gain"]) if alts else None
            if best is not None and best["gain"] > tol2 and best["kind"] not in ("double_star", "reallocation"):
                V("C08:premature_stop", {"leaves": nl, "max_leaves": max_leaves, "explorable": explorable, "last_gain": oracle.last_gain,
                                         "remaining": best})
    res.probe("leaves_total", nl)
    if nl > 1:
        res.probe("trees_with_split")


def execute_for(prop, record):
    res = Result()
    log = EventLog()
    cfg = record["config"]
    faults = record.get("faults", {})
    p = cfg["params"]
    import random
    steer_rng = random.Random(faults.get("steer_seed", 0))
    sub_rng = random.Random(faults.get("steer_seed", 0) ^ 0xABCDEF)
    try:
        from gemclus.tree import Kauri
        from sklearn.metrics import pairwise_kernels
        pool = [make_kauri_data(cfg, 0), make_kauri_data(cfg, 1)]
        world = World(log, res, sub_rng)
        rs = SimRandomState(np.random.RandomState(cfg["rs_seed"]), log, rng=sub_rng, subset_mode=faults.get("subset_mode", "faithful"),
                            result=res)
        from ..families import numpy_scalars

        class PairKernel:
            """A user callable for Kauri: scikit-learn's convention for callable metrics is k(x_i, x_j) -> float on two ROWS."""

            def __init__(self, name):
                self.name = name

            def __call__(self, a, b, **kw):
                return float(pairwise_kernels(np.asarray(a)[None, :], np.asarray(b)[None, :], metric=self.name)[0, 0])

            def __deepcopy__(self, memo):
                return PairKernel(self.name)

        def real_kernel(v):
            return PairKernel(v.split(":", 1)[1]) if isinstance(v, str) and v.startswith("callable:") else v

        def kernel_name(v):
            return v.split(":", 1)[1] if v.startswith("callable:") else v
        p0 = dict(numpy_scalars(p) if cfg.get("np_scalars") else p)
        p0["kernel"] = real_kernel(p0["kernel"])
        model = Kauri(random_state=rs, **p0)
        cur = dict(p)                       # the hyper-parameters the user has set so far
        oracle = None
        with world, quiet():
            for op in record["ops"]:
                kind = op["op"]
                X, A = pool[op.get("data", 0)]
                log.emit("OP", op=kind, phase="begin")
                if kind in ("fit", "fit_no_kernel"):
                    yarg = A if (kind == "fit" and cur["kernel"] == "precomputed") else None
                    if cur["kernel"] == "precomputed":
                        # documented fallback: no matrix passed -> linear kernel (with a warning)
                        kernel_matrix = A if yarg is not None else pairwise_kernels(X, metric="linear")
                    else:
                        kernel_matrix = pairwise_kernels(X, metric=real_kernel(cur["kernel"]))
                        if kind == "fit" and op.get("stray_y"):
                            srs = np.random.RandomState((cfg["data_seed"] ^ 0x5EED) % (2 ** 31))
                            if op["stray_y"] == "matrix":
                                M = srs.normal(size=(len(X), len(X)))
                                yarg = np.ascontiguousarray((M + M.T) / 2)
                            else:
                                yarg = srs.randint(0, 3, size=len(X))
                            res.probe("fits_with_unused_second_argument")
                    c2 = dict(cfg)
                    c2["params"] = cur
                    oracle = KauriOracle(res, world, c2, faults, X, kernel_matrix, steer_rng)
                    oracle.rs = rs
                    rs.last_choice = None
                    world.split_hook = oracle
                    n = len(X)
                    expect_reject = (2 * cur["min_samples_leaf"] > cur["min_samples_split"]) or n < cur["min_samples_leaf"]
                    fitted = False
                    try:
                        model.fit(X, yarg)
                        fitted = True
                    except (SimFault, SimBudget):
                        raise
                    except ValueError as e:
                        if is_harness_frame(e):
                            raise
                        if expect_reject:
                            res.probe("rejected_by_validation")
                        else:
                            res.violate(f"C09:raised:ValueError@{exc_site(e)}", {"msg": str(e)[:200], "op": kind})
                    except Exception as e:
                        if is_harness_frame(e) and oracle.finder_exception is None:
                            raise
                        tag = (":" + oracle.finder_tag) if oracle.finder_exception is not None else ""
                        res.violate(f"C09:raised:{type(e).__name__}@fit{tag}", {"msg": str(e)[:200], "op": kind})
                    if fitted:
                        final_checks(res, oracle, model, c2, X, yarg, kernel_matrix, np.random.RandomState(cfg["data_seed"] ^ 0x51))
                    world.split_hook = None
                    if kind == "fit_no_kernel":
                        res.probe("fits_without_kernel_argument")
                else:
                    try:
                        if kind == "score":
                            model.score(X, A if cur["kernel"] == "precomputed" else None)
                        elif kind == "score_no_kernel":
                            model.score(X)
                        elif kind == "predict":
                            model.predict(X)
                        elif kind == "set_params":
                            name, val = op["change"]
                            model.set_params(**{name: real_kernel(val) if name == "kernel" else val})
                            cur[name] = val
                        elif kind == "crash_fit":
                            from ..seams import LineCrash
                            world.split_hook = None
                            try:
                                with LineCrash(op["crash"]["at"], log, res):
                                    model.fit(X, A if cur["kernel"] == "precomputed" else None)
                                res.probe("prefix_crash_fit_completed")
                            except SimFault:
                                res.probe("prefix_crash_fit_crashed")
                        elif kind == "bad_fit":
                            name, val = op["bad"]
                            old = model.get_params()[name]
                            model.set_params(**{name: val})
                            try:
                                model.fit(X, A if cur["kernel"] == "precomputed" else None)
                            except (SimFault, SimBudget):
                                raise
                            except Exception as e:
                                if is_harness_frame(e):
                                    raise
                                res.fault("invalid_param_fit")
                            model.set_params(**{name: old})
                    except (SimFault, SimBudget):
                        raise
                    except Exception as e:
                        if is_harness_frame(e):
                            raise
                        res.probe("prefix_raised:" + kind + ":" + type(e).__name__)
                    res.probe("prefix_" + kind)
                log.emit("OP", op=kind, phase="end")
        p = cur
        if oracle is None:
            raise HarnessError("no fit op in the record")
        if prop == "C09":
            res.nontrivial = bool(res.probes.get("trees_with_split"))
            t = getattr(model, "tree_", None)
            res.signature = "|".join(str(v) for v in (p["kernel"], p["max_clusters"], p["max_depth"], p["min_samples_leaf"],
                                                       p["min_samples_split"], p["max_features"], p["max_leaves"],
                                                       cfg.get("data_kind"), res.probes.get("leaves_total", 0),
                                                       max(t.depths) if t is not None else -1))
        else:
            res.signature = "|".join(str(v) for v in (p["kernel"], p["max_clusters"], p["min_samples_leaf"], p["max_features"],
                                                       p["max_leaves"], p["max_depth"], faults.get("steer_p"),
                                                       ">".join(oracle.kinds_chosen)))
    except HarnessError as e:
        res.harness_error = "HarnessError: " + str(e)
    # never cross-attribute: a C08 check reports C08 classes only, a C09 check C09 classes only
    other = [v for v in res.violations if not v.cls.startswith(prop + ":")]
    res.violations = [v for v in res.violations if v.cls.startswith(prop + ":")]
    for v in other:
        res.probe("other_property_class_seen:" + v.cls)
    res.digest = log.digest()
    res.events = dict(log.counts)
    return res
