"""C12 — fitting is reproducible, history-independent and free of side effects.

A lifecycle state machine: one estimator object driven through a seeded history of public calls, including calls that
fail (invalid hyper-parameter, malformed data) and calls interrupted by an injected crash (optimiser step k, GEMINI
evaluation k, kernel call k).  After every completed fit / fit_predict / path the fitted state is compared BITWISE with a
reference execution: a fresh estimator built from the hyper-parameters the user set, run once on a private copy of the data."""
import copy
import os

import numpy as np

from ..core import EventLog, Result, SimFault, SimBudget, HarnessError, choice, weighted
from ..families import (sample_config, make_data, make_affinity, build_model, build_params, get_class, FAMILIES,
                        GRADIENT_FAMILIES, config_signature, uses_precomputed, KERNELS)
from ..seams import World, ModelHarness
from .common import sample_constraints, decorate, exc_site, is_harness_frame, quiet, sample_crash, crash_context

PROPERTY = "C12"
KEY_EVENT = "STEP"
RULE = ("one run = one seeded call history (usually <= 9, sometimes up to 15 ops from fit, fit_predict, predict, predict_proba, score, "
        "path, set_params incl. GEMINI-related parameters, get/set round trip, clone, a second estimator built from the same "
        "parameter objects, the user changing his array in place, calls omitting a precomputed matrix, rejected fits, NaN-aborted "
        "paths, fits/paths crashed at a simulator-chosen point) on one estimator of a sampled family (all 18) over a pool of 3 "
        "datasets in various memory layouts; 12% of the judged calls are also compared with a clean-room execution; non-trivial = at least one fit/path was judged after >= 1 earlier "
        "op; distinct = distinct (family, op-kind sequence)")
STATE_MEASURE = "distinct (family, sequence of op kinds with outcomes) histories"
COMPONENTS_REAL = ["all 18 gemclus estimators (fit, fit_predict, predict, predict_proba, score, path), sklearn clone/get_params/set_params",
                   "scikit-learn optimisers (real updates)", "gemclus GEMINIs, compiled KAURI split finder"]
COMPONENTS_STUB = ["crash injection: BaseOptimizer.update_params raising at step k, SimGemini.evaluate raising at call k, SimKernel raising at call k",
                   "the user (op sequence) and the user's own model of the hyper-parameters it set",
                   "seams.TwoTasks: seeded baton-passing scheduler over two real threads (judged call || fit of a second estimator), switching at optimiser-step and GEMINI-evaluation seams",
                   "crash at an arbitrary point: seams.LineCrash (sys.settrace) raises when the k-th source line of the library is about to run, in interrupted calls of the history"]
ASSUMPTIONS = ["integer random_state only (random_state=None is out of the property's scope)",
               "bitwise comparison: both sides run the same floating-point program in the same process with one BLAS thread",
               "an interrupted path() may leave alpha changed (the property promises hyper-parameter immutability for fit only); "
               "the user model then adopts what get_params reports"]

KAURI_KERNELS = ["linear", "rbf", "laplacian", "polynomial", "sigmoid", "cosine"]


def sample_kauri_config(rng):
    n = rng.randint(2, 14)
    d = rng.randint(1, 4)
    msl = rng.randint(1, 2)
    p = dict(max_clusters=rng.randint(1, 5), max_depth=choice(rng, [None, 1, 2, 3]),
             min_samples_leaf=msl, min_samples_split=max(2, 2 * msl + rng.randint(0, 2)),
             max_features=choice(rng, [None, 1, 2]), max_leaves=choice(rng, [None, 2, 3, 5]),
             kernel=choice(rng, KAURI_KERNELS + ["precomputed"]), random_state=rng.randrange(10000))
    cfg = dict(family="Kauri", params=p, n=n, d=d, data_seed=rng.randrange(2 ** 31), data_scale=1.0)
    if p["kernel"] == "precomputed":
        cfg["affinity_src"] = choice(rng, ["linear", "rbf"])
    return cfg


def apply_layout(values, layout):
    """The caller's array in a given memory layout (same values).  Returns (array handed to the library, base buffer)."""
    if layout == "F":
        X = np.asfortranarray(values.copy())
        return X, X
    if layout == "strided":
        big = np.zeros((2 * values.shape[0], values.shape[1] + 1), dtype=values.dtype)
        big[:] = 7.5 if values.dtype.kind == "f" else 7
        big[::2, :-1] = values
        return big[::2, :-1], big
    if layout == "readonly":
        X = values.copy()
        X.flags.writeable = False
        return X, X
    X = values.copy()
    return X, X


def uses_precomputed_any(cfg):
    if cfg["family"] == "Kauri":
        return cfg["params"].get("kernel") == "precomputed"
    return uses_precomputed(cfg)


def dataset(cfg, which):
    """(X, A) number `which` of the pool; datasets differ in size, values and memory layout, not in the number of features."""
    c = dict(cfg)
    c["n"] = cfg["pool_n"][which]
    X = make_data(c, which)
    layout = (cfg.get("layouts") or ["C", "C", "C"])[which]
    if layout == "int":
        X = np.round(X * 2).astype(np.int64)
        X, _ = apply_layout(X, "C")
    else:
        X, _ = apply_layout(X, layout)
    if cfg["family"] == "Kauri":
        A = None
        if cfg["params"].get("kernel") == "precomputed":
            from sklearn.metrics import pairwise_kernels
            A = pairwise_kernels(X, metric=cfg["affinity_src"])
    else:
        A = make_affinity(c, X)
    return X, A


def generate(rng):
    if rng.random() < 0.12:
        cfg = sample_kauri_config(rng)
        kmin = 2
    else:
        cfg = sample_config(rng, n_range=(2, 12), k_range=(1, 4), max_iter_range=(1, 3), p_big=0.1)
        kmin = max(2, cfg["params"]["n_clusters"])
    fam = cfg["family"]
    hi = 13 if not cfg.get("big") else 36
    cfg["pool_n"] = [cfg["n"], rng.randint(kmin, max(kmin, hi)), rng.randint(kmin, max(kmin, hi))]
    if rng.random() < 0.45:
        cfg["pool_n"][1] = cfg["pool_n"][0]      # same shape, other values: what a cache keyed by shape would confuse
    cfg["layouts"] = [weighted(rng, [("C", 5), ("F", 1.5), ("strided", 1.5), ("readonly", 1.5), ("int", 1)]) for _ in range(3)]
    is_kauri = fam == "Kauri"
    info = FAMILIES.get(fam, {})
    deco = None
    if not is_kauri and min(cfg["pool_n"]) >= 3 and rng.random() < 0.15:
        deco = sample_constraints(rng, min(cfg["pool_n"]))
    cfg["decorate"] = deco
    sparse = bool(info.get("sparse"))
    categorical = bool(info.get("categorical"))
    kinds = [("fit", 4), ("fit_predict", 1), ("predict", 1.5), ("score", 1.5), ("set_params", 1.5), ("roundtrip", 0.7),
             ("badparam_fit", 1), ("malformed_fit", 1), ("mutate_data", 1)]
    if not is_kauri:
        kinds += [("predict_proba", 1), ("crash_fit", 2)]
    if not deco:
        kinds += [("clone", 1)]
    if not is_kauri:
        kinds += [("other_fit", 1.2)]
    if sparse and cfg["d"] >= 2:
        kinds += [("path", 2.5), ("crash_path", 1), ("nan_path", 1)]
    ops = []
    last_ds = None
    deep = os.environ.get("GEMSIM_TIER") == "thorough"      # the thorough tier explores longer histories
    for _ in range(rng.randint(1, 8) if rng.random() < (0.7 if deep else 0.9) else rng.randint(8, 24 if deep else 14)):
        k = weighted(rng, kinds)
        if ops and ops[-1]["op"] in ("set_params", "mutate_data", "crash_fit", "malformed_fit") and last_ds is not None and rng.random() < 0.5:
            k = "fit"          # the classic sequence: change something, then fit the SAME array object again
        op = {"op": k}
        if k == "mutate_data":
            op["data"] = last_ds if (last_ds is not None and rng.random() < 0.7) else rng.randrange(3)
            op["how"] = choice(rng, ["scale", "shift", "reverse_rows"])
            ops.append(op)
            continue
        if k in ("fit", "fit_predict", "path", "crash_fit", "crash_path", "nan_path", "badparam_fit", "malformed_fit", "other_fit"):
            op["data"] = rng.randrange(3)
            if k == "fit" and ops and ops[-1]["op"] in ("set_params", "mutate_data", "crash_fit", "malformed_fit") and last_ds is not None:
                op["data"] = last_ds
            last_ds = op["data"] if k in ("fit", "fit_predict", "path") else last_ds
        if k in ("fit", "fit_predict", "path") and not is_kauri and rng.random() < 0.08:
            # two tasks: ANOTHER estimator (built from the same parameter objects) is fitted by a second task; the scheduler
            # runs its whole fit just before the at-th optimiser step of this call
            op["nested_other"] = {"at": rng.randint(1, 4), "data": rng.randrange(3)}
        if k in ("fit", "fit_predict", "path") and "nested_other" not in op and rng.random() < 0.07:
            # two tasks in lock step: another estimator (own object, same parameter objects) is fitted by a second thread and
            # the seeded scheduler alternates the two calls at every optimiser step / GEMINI evaluation
            op["concurrent_other"] = {"data": rng.randrange(3), "seed": rng.randrange(2 ** 31)}
        if k in ("fit", "fit_predict", "score") and uses_precomputed_any(cfg) and rng.random() < 0.3:
            op["no_affinity"] = True      # the precomputed matrix is not passed (Kauri: documented linear fallback; others: rejected)
        if k in ("predict", "predict_proba", "score"):
            op["data"] = last_ds if (categorical and last_ds is not None) else rng.randrange(3)
        if k == "nan_path":
            op["nan_at"] = rng.randint(1, 60)
        if k in ("path", "crash_path", "nan_path"):
            op["args"] = {"alpha_multiplier": choice(rng, [2.0, 5.0]), "min_features": rng.randint(1, cfg["d"]),
                          "max_patience": rng.randint(1, 2), "restore_best_weights": rng.random() < 0.6}
        if k in ("crash_fit", "crash_path"):
            op["crash"] = sample_crash(rng, k == "crash_path", [("opt", 3), ("gemini", 1.5), ("kernel", 1.0), ("line", 3)])
        if k == "set_params":
            op["change"] = sample_param_change(rng, cfg)
        if k == "badparam_fit":
            op["bad"] = choice(rng, [["max_clusters", 0], ["min_samples_split", 1]] if is_kauri else
                               [["n_clusters", 0], ["learning_rate", -1.0], ["solver", "lbfgs"], ["max_iter", 0]])
        if k == "malformed_fit":
            op["how"] = choice(rng, ["nan", "one_dim", "too_few", "inf"])
        ops.append(op)
    # the judged tail: make sure the history ends with something that is compared
    tail = {"op": weighted(rng, [("fit", 3), ("fit_predict", 1)] + ([("path", 2)] if sparse and cfg["d"] >= 2 else [])),
            "data": rng.randrange(3)}
    if tail["op"] == "path":
        tail["args"] = {"alpha_multiplier": choice(rng, [2.0, 5.0]), "min_features": rng.randint(1, cfg["d"]),
                        "max_patience": 1, "restore_best_weights": rng.random() < 0.6}
    ops.append(tail)
    for op in ops:
        if op["op"] in ("fit", "fit_predict", "path") and rng.random() < 0.12:
            op["isolate"] = True      # also compare with an execution in the clean room (pristine library state)
        if op["op"] in ("fit", "fit_predict", "path") and rng.random() < (0.05 if op["op"] == "path" else 0.006):
            # ... and with an execution in a NEW interpreter that runs under another hash salt (reproducibility across
            # program runs: a forked process shares the salt of its parent)
            op["fresh_interpreter"] = 1 + rng.randrange(4000)
    if sparse:
        cfg["params"]["alpha"] = choice(rng, [0.05, 0.5, 2.0])
    return {"property": PROPERTY, "scenario": "lifecycle", "config": cfg, "ops": ops, "faults": {}}


def sample_param_change(rng, cfg):
    if cfg["family"] != "Kauri" and rng.random() < 0.6:
        from .common import sample_param_change as generic_change
        return generic_change(rng, cfg)          # GEMINI-related parameters (kernel, metric, ovo, gemini, base_kernel, groups...)
    if cfg["family"] == "Kauri":
        return choice(rng, [["max_clusters", rng.randint(1, 5)], ["max_features", choice(rng, [None, 1, 2])],
                            ["max_depth", choice(rng, [None, 1, 3])], ["random_state", rng.randrange(10000)]])
    opts = [["max_iter", rng.randint(1, 3)], ["learning_rate", choice(rng, [1e-3, 1e-2, 0.1])],
            ["solver", choice(rng, ["adam", "sgd"])], ["random_state", rng.randrange(10000)]]
    if FAMILIES[cfg["family"]].get("douglas"):
        d = cfg["d"]
        mask = [rng.random() < 0.6 for _ in range(d)]
        if sum(mask) == 0 or sum(mask) > 5:
            mask = [i < min(d, 3) for i in range(d)]
        opts += [["feature_mask", mask]] * 2
    if FAMILIES[cfg["family"]]["batched"]:
        opts.append(["batch_size", choice(rng, [None, 1, 2, 5])])
    if FAMILIES[cfg["family"]].get("sparse"):
        opts.append(["alpha", choice(rng, [0.0, 0.1, 1.0])])
        if cfg["d"] >= 2:
            from ..families import sample_groups
            opts.append(["groups", choice(rng, [None, sample_groups(rng, cfg["d"])])])
    return choice(rng, opts)


# ---------------------------------------------------------------------------------------------------------------------

def equivalent(a, b):
    from gemclus.gemini._base_loss import _GEMINI
    if isinstance(a, np.ndarray) or isinstance(b, np.ndarray):
        return isinstance(a, np.ndarray) and isinstance(b, np.ndarray) and a.shape == b.shape and a.dtype == b.dtype \
            and np.array_equal(a, b, equal_nan=(a.dtype.kind == "f"))
    if isinstance(a, _GEMINI) or isinstance(b, _GEMINI):
        return type(a) is type(b) and equivalent(vars(a), vars(b))
    if isinstance(a, dict) and isinstance(b, dict):
        return a.keys() == b.keys() and all(equivalent(a[k], b[k]) for k in a)
    if isinstance(a, (list, tuple)) and isinstance(b, (list, tuple)):
        return type(a) is type(b) and len(a) == len(b) and all(equivalent(x, y) for x, y in zip(a, b))
    if isinstance(a, float) and isinstance(b, float) and np.isnan(a) and np.isnan(b):
        return True
    num = (int, float, np.integer, np.floating)
    if isinstance(a, num) and isinstance(b, num) and not isinstance(a, bool) and not isinstance(b, bool):
        return a == b      # 0 and 0.0 are the same hyper-parameter value
    return type(a) is type(b) and a == b


def fitted_state(m):
    out = {}
    for k, v in vars(m).items():
        if not k.endswith("_") or k.startswith("_"):
            continue
        if k == "tree_":
            out[k] = {kk: copy.deepcopy(vv) for kk, vv in vars(v).items()}
        elif k == "optimiser_":
            out[k] = {kk: copy.deepcopy(vv) for kk, vv in vars(v).items()}
            out[k]["__class__"] = type(v).__name__
        elif k == "input_data_":
            out[k] = np.array(v, copy=True)
        else:
            out[k] = copy.deepcopy(v)
    return out


def state_fingerprint(obj):
    """Canonical, process-independent fingerprint of a fitted state (nested dicts / lists / arrays / scalars)."""
    import hashlib
    h = hashlib.sha256()

    def feed(o):
        from gemclus.gemini._base_loss import _GEMINI
        if isinstance(o, np.ndarray):
            h.update(b"A" + str(o.shape).encode() + str(o.dtype).encode() + np.ascontiguousarray(o).tobytes())
        elif isinstance(o, dict):
            h.update(b"D")
            for k in sorted(o, key=str):
                h.update(str(k).encode())
                feed(o[k])
        elif isinstance(o, (list, tuple)):
            h.update(b"L%d" % len(o))
            for x in o:
                feed(x)
        elif isinstance(o, (float, np.floating)):
            h.update(b"F" + (b"nan" if np.isnan(o) else float(o).hex().encode()))
        elif isinstance(o, (bool, np.bool_)):
            h.update(b"B1" if o else b"B0")
        elif isinstance(o, (int, np.integer)):
            h.update(b"I" + str(int(o)).encode())
        elif o is None:
            h.update(b"N")
        elif isinstance(o, str):
            h.update(b"S" + o.encode())
        elif isinstance(o, _GEMINI):
            h.update(b"G" + type(o).__name__.encode())
            feed({k: v for k, v in vars(o).items()})
        else:
            h.update(b"O" + type(o).__name__.encode())
    feed(obj)
    return h.hexdigest()


def isolated_execution(payload):
    """Runs in the clean room: fresh estimator from the given hyper-parameters, one fit / fit_predict / path on the given
    dataset of the pool; returns fingerprints of the fitted state and of the returned value."""
    import io
    import sys
    import warnings
    warnings.simplefilter("ignore")
    sys.stdout = io.StringIO()          # verbose=True estimators print progress
    cfg, params, which, kind, args = payload["cfg"], payload["params"], payload["which"], payload["kind"], payload["args"]
    c = dict(cfg)
    c["params"] = params
    if payload.get("X_values") is not None:
        # the caller's array as it is NOW (the user may have changed its contents since it was generated), same layout
        lay = payload.get("layout", "C")
        X = apply_layout(np.array(payload["X_values"], copy=True), "C" if lay == "int" else lay)[0]
        A = None if payload.get("A_values") is None else np.array(payload["A_values"], copy=True)
    else:
        X, A = dataset(cfg, which)
    if payload.get("no_affinity"):
        A = None
    if cfg["family"] == "Kauri":
        m = get_class("Kauri")(**params)
    else:
        m = build_model(c, None)
    if cfg.get("decorate"):
        decorate(m, cfg["decorate"])
    out = None
    try:
        if kind == "path":
            out = m.path(X, A, **args)
        elif kind == "fit_predict":
            out = m.fit_predict(X, A)
        else:
            m.fit(X, A)
    except Exception as e:
        return {"raised": type(e).__name__}
    st = fitted_state(m)
    detail = {k: state_fingerprint(v) for k, v in st.items()}
    return {"state": state_fingerprint(st), "attrs": detail,
            "ret": None if out is None else state_fingerprint(list(out) if isinstance(out, tuple) else np.asarray(out))}


def first_difference(a, b):
    for k in sorted(set(a) | set(b)):
        if k not in a or k not in b:
            return k + ":missing"
        if not equivalent(a[k], b[k]):
            return k
    return None


def malformed(X, how, K):
    X = np.array(X, dtype=np.float64, copy=True)
    if how == "nan":
        X[0, 0] = np.nan
    elif how == "inf":
        X[-1, -1] = np.inf
    elif how == "one_dim":
        X = X[:, 0]
    elif how == "too_few":
        X = X[:0]
    return X


def op_signature(ops_done):
    return ">".join(ops_done)


def execute(record):
    res = Result()
    log = EventLog()
    cfg = record["config"]
    fam = cfg["family"]
    is_kauri = fam == "Kauri"
    import random
    rng = random.Random(record.get("run_seed", 0) ^ 0xC12)
    try:
        pool = [dataset(cfg, i) for i in range(3)]
        pristine = [(X.copy(), None if A is None else A.copy()) for X, A in pool]
        layouts = cfg.get("layouts") or ["C", "C", "C"]
        bases = [X if X.base is None else X.base for X, _ in pool]
        pristine_bases = [b.copy() for b in bases]

        def private_copy(X, which):
            """A private copy of a caller array with the SAME memory layout (so that both executions run the same program)."""
            lay = layouts[which]
            return apply_layout(np.array(X, copy=True, order="C"), "C" if lay == "int" else lay)[0]
        user_params = copy.deepcopy(cfg["params"])
        world = World(log, res, rng)
        world.step_budget = 20000
        world.val_budget = 1500
        kernel_fault = {"at": None}

        def build(params, for_reference=False):
            c = dict(cfg)
            c["params"] = params
            if is_kauri:
                m = get_class("Kauri")(**params)
            else:
                m = build_model(c, log)
            if cfg.get("decorate"):
                with quiet():
                    decorate(m, cfg["decorate"])
            return m

        def harness_for(m):
            h = ModelHarness(world, m, fam, wrap_gemini=not is_kauri)
            return h

        try:
            model = build(user_params)
        except ValueError:
            res.probe("decoration_rejected")
            cfg = dict(cfg)
            cfg["decorate"] = None
            model = build(user_params)
        harness_for(model)
        done = []
        judged_after_history = 0

        def set_kernel_fault(m, at):
            from ..families import SimKernel
            for key in ("kernel", "base_kernel"):
                k = getattr(m, key, None)
                if isinstance(k, SimKernel):
                    k.raise_at = at
                    k.calls = 0
                    return True
            return False

        def run_reference(kind, X, A, args, params, which=0):
            """Fresh object, the hyper-parameters the user had set when the call was made, private copies of the data,
            no faults."""
            saved = (world.opt_raise_at, world.gemini_fault)
            world.opt_raise_at, world.gemini_fault = None, None
            ref = build(copy.deepcopy(params), for_reference=True)
            Xr = private_copy(X, which)
            Ar = None if A is None else A.copy()
            out, exc = None, None
            try:
                if kind == "path":
                    out = ref.path(Xr, Ar, **args)
                elif kind == "fit_predict":
                    out = ref.fit_predict(Xr, Ar)
                else:
                    ref.fit(Xr, Ar)
            except (SimFault, SimBudget):
                raise
            except Exception as e:
                if is_harness_frame(e):
                    raise
                exc = type(e).__name__
            world.opt_raise_at, world.gemini_fault = saved
            return ref, out, exc, Xr, Ar

        def check_params(opname):
            fresh = build(copy.deepcopy(user_params))
            want = fresh.get_params()
            if not is_kauri:
                # what the USER passed, not what a constructor made of it (a constructor that normalises a value breaks
                # the get_params/set_params/clone contract although two constructed objects agree with each other)
                raw = build_params(dict(cfg, params=copy.deepcopy(user_params)), log)
                for k, v in raw.items():
                    if k in want:
                        want[k] = v
            got = model.get_params()
            for k in sorted(set(want) | set(got)):
                if k not in got or k not in want or not equivalent(got[k], want[k]):
                    res.violate(f"C12:hyperparameter_modified:{k}@{opname}", {"param": k, "got": repr(got.get(k))[:80],
                                                                          "want": repr(want.get(k))[:80], "history": done})
                    return False
            return True

        with world, quiet():
            for op in record["ops"]:
                kind = op["op"]
                world.begin_op()
                world.n_eval = 0
                world.opt_raise_at = None
                world.gemini_fault = None
                set_kernel_fault(model, None)
                log.emit("OP", op=kind, phase="begin")
                X, A = pool[op["data"]] if "data" in op else (None, None)
                if op.get("no_affinity"):
                    A = None
                params_at_call = copy.deepcopy(user_params)
                outcome = "ok"
                ret = None
                base_kind = {"crash_fit": "fit", "crash_path": "path", "nan_path": "path"}.get(kind, kind)
                try:
                    if kind in ("fit", "fit_predict", "path", "crash_fit", "crash_path", "nan_path"):
                        if kind == "nan_path":
                            # the documented NaN-abort branch: the GEMINI returns NaN from its k-th evaluation on; path()
                            # stops and RETURNS (a completed call, so hyper-parameters must be what the user set)
                            world.gemini_fault = {"kind": "nan", "at": op["nan_at"]}
                        if kind.startswith("crash"):
                            c = op["crash"]
                            if c["seam"] == "opt" and not is_kauri:
                                world.opt_raise_at = c["at"]
                            elif c["seam"] == "gemini" and not is_kauri:
                                world.gemini_fault = {"kind": "raise", "at": c["at"]}
                            elif c["seam"] == "kernel":
                                if not set_kernel_fault(model, c["at"]):
                                    world.opt_raise_at = c["at"]
                        args = op.get("args", {})
                        nested = op.get("nested_other") if kind in ("fit", "fit_predict", "path") else None
                        if nested:
                            def nested_hook(w, opt, params, grads, _st={"busy": False, "done": False}, _model=model, _nested=nested):
                                if _st["busy"] or _st["done"] or w.n_steps != _nested["at"]:
                                    return
                                _st["busy"] = True
                                saved_steps = w.n_steps
                                try:
                                    other = type(_model)(**_model.get_params(deep=False))
                                    if cfg.get("decorate"):
                                        with quiet():
                                            decorate(other, cfg["decorate"])
                                    harness_for(other)
                                    Xo, Ao = pool[_nested["data"]]
                                    log.emit("TASK", task="second_estimator", phase="begin")
                                    try:
                                        other.fit(Xo, Ao)
                                        res.fault("interleaved_second_estimator_fit")
                                    except (SimFault, SimBudget):
                                        raise
                                    except Exception as e:
                                        if is_harness_frame(e):
                                            raise
                                        res.probe("second_estimator_raised:" + type(e).__name__)
                                    log.emit("TASK", task="second_estimator", phase="end")
                                finally:
                                    w.n_steps = saved_steps
                                    _st["busy"] = False
                                    _st["done"] = True
                            world.step_hooks.append(nested_hook)
                        conc = op.get("concurrent_other") if kind in ("fit", "fit_predict", "path") else None

                        def the_call():
                            if base_kind == "path":
                                return model.path(X, A, **args)
                            if base_kind == "fit_predict":
                                return model.fit_predict(X, A)
                            model.fit(X, A)
                            return None
                        try:
                            if conc:
                                import random as _random
                                from ..seams import TwoTasks
                                other = type(model)(**model.get_params(deep=False))
                                if cfg.get("decorate"):
                                    with quiet():
                                        decorate(other, cfg["decorate"])      # like the estimator under test
                                harness_for(other)
                                Xo, Ao = pool[conc["data"]]
                                tasks = TwoTasks(_random.Random(conc["seed"]), log)
                                world.step_hooks.append(tasks.yield_point)
                                world.eval_hooks.append(tasks.yield_point)
                                saved_split = world.split_hook
                                if is_kauri:
                                    # KAURI's seam: every call of the split finder (one per growth step)
                                    def split_yield(w, orig, *a):
                                        tasks.yield_point()
                                        return orig(*a)
                                    world.split_hook = split_yield
                                box = {}
                                try:
                                    err1 = tasks.run(lambda: box.__setitem__("ret", the_call()), lambda: other.fit(Xo, Ao))
                                finally:
                                    world.step_hooks.remove(tasks.yield_point)
                                    world.eval_hooks.remove(tasks.yield_point)
                                    world.split_hook = saved_split
                                ret = box.get("ret")
                                if err1 is not None:
                                    if isinstance(err1, (SimFault, SimBudget, HarnessError)) or is_harness_frame(err1):
                                        raise err1
                                    res.probe("second_task_raised:" + type(err1).__name__)
                                res.fault("two_task_interleaving")
                                res.probe("task_switches", tasks.switches)
                            else:
                                with crash_context(op, log, res):
                                    ret = the_call()
                        finally:
                            if nested:
                                world.step_hooks.remove(nested_hook)
                    elif kind in ("predict", "predict_proba", "score"):
                        # read-only calls: the same call twice gives the same answer and leaves the fitted state untouched
                        before = fitted_state(model)
                        call = {"predict": lambda: model.predict(X), "predict_proba": lambda: model.predict_proba(X),
                                "score": lambda: model.score(X, A)}[kind]
                        r1 = call()
                        r2 = call()
                        if not equivalent(np.asarray(r1), np.asarray(r2)):
                            res.violate(f"C12:history_dependence:{kind}:repeated_call_differs", {"history": done})
                        dchg = first_difference(before, fitted_state(model))
                        if dchg is not None:
                            res.violate(f"C12:history_dependence:{kind}:modified_fitted_state", {"attr": dchg, "history": done})
                        res.probe("read_only_calls_checked")
                    elif kind == "set_params":
                        name, val = op["change"]
                        real = val
                        if not is_kauri and name in ("feature_mask", "gemini", "kernel", "base_kernel", "groups"):
                            real = build_params(dict(cfg, params={name: copy.deepcopy(val)}), log)[name]
                        model.set_params(**{name: real})
                        user_params[name] = val
                        if name in ("kernel", "metric", "base_kernel") and (name + "_params") in model.get_params():
                            model.set_params(**{name + "_params": None})
                            user_params[name + "_params"] = None
                    elif kind == "roundtrip":
                        before = model.get_params()
                        model.set_params(**model.get_params())
                        after = model.get_params()
                        for k in before:
                            if not equivalent(before[k], after.get(k)):
                                res.violate(f"C12:clone_roundtrip:{k}", {"how": "set_params(**get_params())"})
                    elif kind == "clone":
                        from sklearn.base import clone
                        try:
                            new = clone(model)
                        except (SimFault, SimBudget):
                            raise
                        except Exception as e:
                            if is_harness_frame(e):
                                raise
                            res.violate("C12:clone_roundtrip:raised:" + type(e).__name__, {"msg": str(e)[:200], "history": done})
                            raise
                        gp, gn = model.get_params(), new.get_params()
                        for k in sorted(set(gp) | set(gn)):
                            if k not in gn or k not in gp or not equivalent(gp[k], gn[k]):
                                res.violate(f"C12:clone_roundtrip:{k}", {"how": "clone"})
                        model = new
                        harness_for(model)
                    elif kind == "mutate_data":
                        # the USER changes the contents of his own array between two calls (same object, other values)
                        i = op["data"]
                        Xc, Ac = pool[i]
                        if Xc.flags.writeable and Xc.dtype.kind == "f":
                            if op["how"] == "scale":
                                Xc *= 1.7
                            elif op["how"] == "shift":
                                Xc += 0.9
                            else:
                                Xc[:] = Xc[::-1].copy()
                            if Ac is not None:
                                if is_kauri:
                                    from sklearn.metrics import pairwise_kernels
                                    Ac[:] = pairwise_kernels(np.asarray(Xc, dtype=np.float64), metric=cfg["affinity_src"])
                                else:
                                    c2 = dict(cfg)
                                    c2["n"] = len(Xc)
                                    Ac[:] = make_affinity(c2, np.asarray(Xc, dtype=np.float64))
                            pristine[i] = (Xc.copy(), None if Ac is None else Ac.copy())
                            pristine_bases[i] = bases[i].copy()
                            res.fault("user_mutates_own_array")
                    elif kind == "other_fit":
                        # a SECOND estimator built from the very same parameter objects (GEMINI instance, groups list,
                        # kernel_params dict, feature mask, callable kernel) is fitted in between
                        other = type(model)(**model.get_params(deep=False))
                        harness_for(other)
                        other.fit(X, A)
                        res.probe("other_object_fits")
                    elif kind == "badparam_fit":
                        name, val = op["bad"]
                        old = model.get_params()[name]
                        model.set_params(**{name: val})
                        try:
                            model.fit(X, A)
                            outcome = "accepted"
                        except (SimFault, SimBudget):
                            raise
                        except Exception as e:
                            if is_harness_frame(e):
                                raise
                            outcome = "rejected"
                        model.set_params(**{name: old})
                        if outcome == "rejected":
                            res.fault("invalid_param_fit")
                    elif kind == "malformed_fit":
                        Xm = malformed(X, op["how"], user_params.get("n_clusters", 1))
                        try:
                            model.fit(Xm, A)
                            outcome = "accepted"
                        except (SimFault, SimBudget):
                            raise
                        except Exception as e:
                            if is_harness_frame(e):
                                raise
                            outcome = "rejected"
                            res.fault("malformed_data_fit")
                except SimFault as e:
                    outcome = "crashed"
                    if str(e) == "kernel_raise":
                        res.fault("kernel_raise")
                except SimBudget:
                    raise
                except Exception as e:
                    if is_harness_frame(e):
                        raise
                    outcome = "raised:" + type(e).__name__
                log.emit("OP", op=kind, phase="end", outcome=outcome.split(":")[0])
                done.append(kind + ("" if outcome == "ok" else "!" + outcome.split(":")[0]))

                # ---- side effects on the caller's arrays (every op)
                for i, ((Xp, Ap), (Xc, Ac)) in enumerate(zip(pristine, pool)):
                    if Xc.shape != Xp.shape or Xc.tobytes() != Xp.tobytes() or (Ap is not None and Ac.tobytes() != Ap.tobytes()) \
                            or bases[i].tobytes() != pristine_bases[i].tobytes():
                        res.violate(f"C12:caller_data_modified:{base_kind}", {"dataset": i, "layout": layouts[i], "history": done})
                        # restore the caller's values in place (the arrays keep their identity and layout)
                        w = bases[i].flags.writeable
                        bases[i].flags.writeable = True
                        bases[i][...] = pristine_bases[i]
                        bases[i].flags.writeable = w
                        if Ap is not None:
                            Ac[...] = Ap

                # ---- hyper-parameters
                if outcome != "ok" and base_kind == "path":
                    # allowed to leave alpha changed; the user model adopts what the object now reports
                    a = model.get_params().get("alpha")
                    if a != user_params.get("alpha"):
                        res.probe("interrupted_path_left_alpha_changed")
                        user_params["alpha"] = a
                if kind in ("fit", "fit_predict", "predict", "predict_proba", "score", "crash_fit", "badparam_fit",
                            "malformed_fit") or (kind in ("path", "nan_path") and outcome == "ok"):
                    # fit / predict / predict_proba / score never modify hyper-parameters; a COMPLETED path falls under
                    # "running path twice on the same object produces the same model", hyper-parameters included
                    if not check_params(base_kind):
                        # report once, at the op that did it; later ops are judged against what the object now holds
                        for k, v in model.get_params().items():
                            if k in user_params and not equivalent(v, build_params(dict(cfg, params=user_params)).get(k)):
                                if isinstance(v, (int, float, str, bool)) or v is None:
                                    user_params[k] = v

                # ---- the judged comparison
                if kind in ("fit", "fit_predict", "path") and (outcome == "ok" or outcome.startswith("raised")):
                    ref, ref_ret, ref_exc, Xr, Ar = run_reference(kind, X, A, op.get("args", {}), params_at_call, op.get("data", 0))
                    if (outcome != "ok") != (ref_exc is not None):
                        res.violate(f"C12:history_dependence:{kind}:raised", {"object": outcome, "reference": ref_exc, "history": done})
                    elif outcome == "ok":
                        if len(done) > 1:
                            judged_after_history += 1
                        res.probe("judged_" + kind)
                        d = first_difference(fitted_state(model), fitted_state(ref))
                        if d is None and kind == "path":
                            if not equivalent(list(ret), list(ref_ret)):
                                d = "path_return"
                        if d is None and kind == "fit_predict":
                            if not equivalent(np.asarray(ret), np.asarray(ref_ret)):
                                d = "fit_predict_return"
                        if d is None:
                            try:
                                # each side predicts on ITS OWN training array (KernelRIM's kernel takes scikit-learn's
                                # `X is Y` shortcut when given the very object it was fitted on)
                                p1, p2 = model.predict(X), ref.predict(Xr)
                                if not equivalent(np.asarray(p1), np.asarray(p2)):
                                    d = "predict"
                                else:
                                    s1, s2 = model.score(X, A), ref.score(Xr, Ar)
                                    if not equivalent(float(s1), float(s2)):
                                        d = "score"
                            except (SimFault, SimBudget):
                                raise
                            except Exception as e:
                                if is_harness_frame(e):
                                    raise
                        if d is None and op.get("isolate"):
                            from .. import cleanroom
                            room = cleanroom.get()
                            if room is None:
                                res.probe("clean_room_unavailable")
                            else:
                                status, iso = room.call("gemsim.scenarios.c12", "isolated_execution",
                                                        {"cfg": cfg, "params": params_at_call, "which": op.get("data", 0),
                                                         "kind": kind, "args": op.get("args", {}),
                                                         "no_affinity": bool(op.get("no_affinity")),
                                                         "X_values": np.array(X, copy=True, order="C"),
                                                         "A_values": None if A is None else np.array(A, copy=True),
                                                         "layout": layouts[op.get("data", 0)]})
                                if status != "ok":
                                    raise HarnessError("clean room: " + str(iso))
                                res.probe("clean_room_references")
                                log.emit("CLEANROOM", kind=kind, state=iso.get("state", "raised"))
                                if "raised" in iso:
                                    d = "raised_in_pristine_process_only"
                                else:
                                    mine = fitted_state(model)
                                    if state_fingerprint(mine) != iso["state"]:
                                        bad = [k for k in sorted(mine) if state_fingerprint(mine[k]) != iso["attrs"].get(k)]
                                        d = "differs_from_pristine_process:" + (bad[0] if bad else "?")
                                    elif ret is not None and iso["ret"] != state_fingerprint(list(ret) if isinstance(ret, tuple) else np.asarray(ret)):
                                        d = "differs_from_pristine_process:return"
                        if d is None and op.get("fresh_interpreter"):
                            from .. import cleanroom
                            hs = int(op["fresh_interpreter"])
                            if str(hs) == os.environ.get("PYTHONHASHSEED"):
                                hs += 1
                            status, iso = cleanroom.fresh_interpreter_call(
                                "gemsim.scenarios.c12", "isolated_execution",
                                {"cfg": cfg, "params": params_at_call, "which": op.get("data", 0), "kind": kind,
                                 "args": op.get("args", {}), "no_affinity": bool(op.get("no_affinity")),
                                 "X_values": np.array(X, copy=True, order="C"),
                                 "A_values": None if A is None else np.array(A, copy=True),
                                 "layout": layouts[op.get("data", 0)]}, hs)
                            if status != "ok":
                                raise HarnessError("fresh interpreter: " + str(iso))
                            res.probe("fresh_interpreter_references")
                            log.emit("FRESH", kind=kind, state=iso.get("state", "raised"))
                            if "raised" in iso:
                                d = "raised_in_fresh_interpreter_only"
                            else:
                                mine = fitted_state(model)
                                if state_fingerprint(mine) != iso["state"]:
                                    bad = [k for k in sorted(mine) if state_fingerprint(mine[k]) != iso["attrs"].get(k)]
                                    d = "differs_from_fresh_interpreter:" + (bad[0] if bad else "?")
                                elif ret is not None and iso["ret"] != state_fingerprint(list(ret) if isinstance(ret, tuple) else np.asarray(ret)):
                                    d = "differs_from_fresh_interpreter:return"
                        if d is not None:
                            res.violate(f"C12:history_dependence:{kind}:{d}", {"history": done, "attr": d,
                                                                           "user_params": {k: repr(v)[:40] for k, v in user_params.items()}})
                        else:
                            res.probe("bitwise_equal_refits")
                if "!crashed" in done[-1]:
                    res.probe("histories_with_crash")
        res.nontrivial = judged_after_history > 0
        for tag in ("badparam_fit!rejected", "malformed_fit!rejected", "path", "clone", "crash_fit!crashed", "crash_path!crashed"):
            if tag in done[:-1]:
                res.probe("history_has_" + tag.replace("!", "_"))
        res.signature = fam + "|" + op_signature(done)
        res.state_keys = {res.signature}
    except SimBudget:
        res.probe("budget_exhausted")
        res.signature = fam + "|budget"
    except HarnessError as e:
        res.harness_error = "HarnessError: " + str(e)
    res.digest = log.digest()
    res.events = dict(log.counts)
    return res


def shrink_variants(rec):
    """Property-specific simplifications tried before the generic ones: drop any single op but the last."""
    out = []
    ops = rec.get("ops", [])
    for i in range(len(ops) - 1):
        r = copy.deepcopy(rec)
        r["ops"].pop(i)
        out.append((f"drop op {i} ({ops[i]['op']})", r))
    return out
