"""Helpers shared by the scenarios."""
import math
import warnings

import numpy as np

from ..core import SimFault, SimBudget, HarnessError, choice
from ..families import make_data, make_affinity, build_model, FAMILIES
from ..seams import World, ModelHarness, SCHED_KINDS


class UnionFind:
    def __init__(self):
        self.p = {}

    def find(self, x):
        self.p.setdefault(x, x)
        while self.p[x] != x:
            self.p[x] = self.p[self.p[x]]
            x = self.p[x]
        return x

    def union(self, a, b):
        ra, rb = self.find(a), self.find(b)
        if ra != rb:
            self.p[ra] = rb


def sample_constraints(rng, n, max_pairs=3, consistent=True):
    """Random must-link / cannot-link pairs over arbitrary (non-contiguous, unordered) indices of range(n)."""
    if n < 2:
        return {"must_link": [], "cannot_link": [], "factor": 1.0}
    ml, cl = [], []
    uf = UnionFind()
    for _ in range(rng.randint(0, max_pairs)):
        i, j = rng.sample(range(n), 2)
        ml.append([i, j])
        uf.union(i, j)
    for _ in range(rng.randint(0 if ml else 1, max_pairs)):
        for _try in range(8):
            i, j = rng.sample(range(n), 2)
            if not consistent or uf.find(i) != uf.find(j):
                cl.append([i, j])
                break
    return {"must_link": ml, "cannot_link": cl, "factor": choice(rng, [0.5, 1.0, 2.5])}


def sample_sched(rng, decorated=False):
    """Schedule plan: [] = faithful; otherwise a list of kinds cycled over the epochs."""
    if rng.random() < 0.45:
        return []
    kinds = ["identity", "reverse", "rotate", "riffle", "random"]
    if decorated:
        kinds += ["split_pairs", "join_pairs", "split_pairs", "join_pairs"]
    return [choice(rng, kinds) for _ in range(rng.randint(1, 3))]


def decorate(model, deco):
    from gemclus.mlcl import add_mlcl_constraint
    ml = [tuple(p) for p in deco["must_link"]] or None
    cl = [tuple(p) for p in deco["cannot_link"]] or None
    return add_mlcl_constraint(model, ml, cl, deco["factor"])


def expected_batches(n, batch_size):
    return 1 if batch_size is None else math.ceil(n / batch_size)


def exc_site(e):
    """Stable location of an exception: innermost frame inside gemclus (function name), else 'external'."""
    import traceback
    tb = traceback.extract_tb(e.__traceback__)
    site = "external"
    for fr in tb:
        if "/gemclus/" in fr.filename.replace("\\", "/"):
            site = fr.name
    return site


def is_harness_frame(e):
    import traceback
    tb = traceback.extract_tb(e.__traceback__)
    return bool(tb) and "/gemsim/" in tb[-1].filename.replace("\\", "/")


class quiet:
    """Context manager: record warnings (always) without printing them."""

    def __enter__(self):
        self._cm = warnings.catch_warnings(record=True)
        self.caught = self._cm.__enter__()
        warnings.simplefilter("always")
        return self

    def __exit__(self, *a):
        return self._cm.__exit__(*a)

    def messages(self):
        return [str(w.message) for w in self.caught]
