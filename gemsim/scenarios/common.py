"""Helpers shared by the scenarios."""
import math
import os
import warnings

import numpy as np

from ..core import SimFault, SimBudget, HarnessError, choice, weighted
from ..families import make_data, make_affinity, build_model, FAMILIES
from ..seams import World, ModelHarness, SCHED_KINDS


class UnionFind:
    def __init__(self):
        self.p = {}

    def find(self, x):
        self.p.setdefault(x, x)
        while self.p[x] != x:
            self.p[x] = self.p[self.p[x]]
            x = self.p[x]
        return x

    def union(self, a, b):
        ra, rb = self.find(a), self.find(b)
        if ra != rb:
            self.p[ra] = rb


def sample_constraints(rng, n, max_pairs=3, consistent=True):
    """Random must-link / cannot-link pairs over arbitrary (non-contiguous, unordered) indices of range(n)."""
    if n < 2:
        return {"must_link": [], "cannot_link": [], "factor": 1.0}
    ml, cl = [], []
    uf = UnionFind()
    for _ in range(rng.randint(0, max_pairs)):
        i, j = rng.sample(range(n), 2)
        ml.append([i, j])
        uf.union(i, j)
    for _ in range(rng.randint(0 if ml else 1, max_pairs)):
        for _try in range(8):
            i, j = rng.sample(range(n), 2)
            if not consistent or uf.find(i) != uf.find(j):
                cl.append([i, j])
                break
    return {"must_link": ml, "cannot_link": cl, "factor": choice(rng, [0.5, 1.0, 2.5])}


def sample_sched(rng, decorated=False):
    """Schedule plan: [] = faithful; otherwise a list of kinds cycled over the epochs."""
    if rng.random() < 0.45:
        return []
    kinds = ["identity", "reverse", "rotate", "riffle", "random"]
    if decorated:
        kinds += ["split_pairs", "join_pairs", "split_pairs", "join_pairs"]
    return [choice(rng, kinds) for _ in range(rng.randint(1, 3))]


def decorate(model, deco):
    from gemclus.mlcl import add_mlcl_constraint
    ml = [tuple(p) for p in deco["must_link"]] or None
    cl = [tuple(p) for p in deco["cannot_link"]] or None
    return add_mlcl_constraint(model, ml, cl, deco["factor"])


def expected_batches(n, batch_size):
    return 1 if batch_size is None else math.ceil(n / batch_size)


def exc_site(e):
    """Stable location of an exception: innermost frame inside gemclus (function name), else 'external'."""
    import traceback
    tb = traceback.extract_tb(e.__traceback__)
    site = "external"
    for fr in tb:
        if "/gemclus/" in fr.filename.replace("\\", "/"):
            site = fr.name
    return site


def is_harness_frame(e):
    import traceback
    tb = traceback.extract_tb(e.__traceback__)
    return bool(tb) and "/gemsim/" in tb[-1].filename.replace("\\", "/")


class quiet:
    """Context manager: record warnings (always) without printing them."""

    def __enter__(self):
        self._cm = warnings.catch_warnings(record=True)
        self.caught = self._cm.__enter__()
        warnings.simplefilter("always")
        return self

    def __exit__(self, *a):
        return self._cm.__exit__(*a)

    def messages(self):
        return [str(w.message) for w in self.caught]


# ---------------------------------------------------------------------------------------------------------------------
# Call histories shared by the scenarios: the judged operation is preceded by other public calls on the SAME object
# (earlier fits on other data, interrupted and rejected fits, read-only calls, hyper-parameter changes, the user
# changing the contents of his own array between two calls).  All oracles stay attached during the prefix.
# ---------------------------------------------------------------------------------------------------------------------

def sample_param_change(rng, cfg):
    """A legal set_params(**{name: value}) for the family of cfg (JSON value), GEMINI-related parameters included."""
    from ..families import FAMILIES, KERNELS, METRICS, GEMINI_NAMES, sample_groups
    fam = FAMILIES[cfg["family"]]
    p = cfg["params"]
    opts = [["max_iter", rng.randint(1, 3)], ["learning_rate", choice(rng, [1e-3, 1e-2, 0.1])],
            ["solver", choice(rng, ["adam", "sgd"])], ["random_state", rng.randrange(10000)], ["verbose", rng.random() < 0.5]]
    if fam["batched"]:
        opts.append(["batch_size", choice(rng, [None, 1, 2, 3, 5])])
    if fam["gem"] == "mmd" and p.get("kernel") != "precomputed":
        opts += [["kernel", choice(rng, KERNELS)], ["kernel", choice(rng, KERNELS)], ["ovo", rng.random() < 0.5]]
    if fam["gem"] == "wass" and p.get("metric") != "precomputed":
        opts += [["metric", choice(rng, METRICS)], ["metric", choice(rng, METRICS)], ["ovo", rng.random() < 0.5]]
    if fam["gem"] == "generic" and not isinstance(p.get("gemini"), dict):
        opts += [["gemini", choice(rng, GEMINI_NAMES)], ["gemini", choice(rng, GEMINI_NAMES)]]
    if fam.get("reg"):
        opts.append(["reg", choice(rng, [0.0, 0.1, 1.0])])
    if fam.get("kernelrim") and not str(p.get("base_kernel", "")).startswith("callable"):
        opts += [["base_kernel", choice(rng, ["linear", "rbf", "laplacian", "polynomial"])]] * 2
    if fam.get("sparse"):
        opts.append(["alpha", choice(rng, [0.05, 0.5, 2.0])])
        if cfg["d"] >= 2:
            opts += [["groups", choice(rng, [None, sample_groups(rng, cfg["d"])])]] * 2
        if fam.get("mlp"):
            opts.append(["M", choice(rng, [0.5, 2.0, 10.0])])
    if fam.get("mlp"):
        opts.append(["n_hidden_dim", rng.randint(1, 5)])
    return choice(rng, opts)


def sample_prefix(rng, cfg, max_len=4, p_any=0.35, allow_path=True, allow_mutate=True):
    """A random prefix of public calls executed on the object before the judged operation ([] in most runs)."""
    from ..families import FAMILIES
    if rng.random() > p_any:
        return []
    fam = FAMILIES[cfg["family"]]
    kinds = [("fit", 3), ("crash_fit", 2.5), ("set_params", 3), ("score", 1), ("predict", 1), ("bad_fit", 1)]
    if allow_mutate:
        kinds.append(("mutate_data", 1.5))
    if fam.get("sparse") and cfg["d"] >= 2 and allow_path:
        kinds += [("path", 1.5), ("crash_path", 1), ("nan_path", 1)]
    ops = []
    if os.environ.get("GEMSIM_TIER") == "thorough" and rng.random() < 0.3:
        max_len = 3 * max_len          # the thorough tier explores longer histories
    for _ in range(rng.randint(1, max_len)):
        k = weighted(rng, kinds)
        if ops and ops[-1]["op"] in ("set_params", "mutate_data", "crash_fit") and rng.random() < 0.4:
            k = "fit"          # the classic sequence: change something (or fail), then fit again
        op = {"op": k}
        if k in ("fit", "crash_fit", "score", "predict", "bad_fit", "mutate_data", "path", "crash_path", "nan_path"):
            op["data"] = rng.randrange(2)
        if k in ("crash_fit", "crash_path"):
            op["crash"] = sample_crash(rng, k == "crash_path", [("opt", 3), ("gemini", 2), ("line", 3)])
        if k == "nan_path":
            op["nan_at"] = rng.randint(1, 40)
        if k in ("path", "crash_path", "nan_path"):
            op["args"] = {"alpha_multiplier": choice(rng, [2.0, 5.0]), "min_features": rng.randint(1, cfg["d"]),
                          "max_patience": 1, "restore_best_weights": rng.random() < 0.5}
        if k == "set_params":
            op["change"] = sample_param_change(rng, cfg)
        if k == "bad_fit":
            bads = [["n_clusters", 0], ["learning_rate", -1.0], ["max_iter", 0]]
            if fam.get("sparse"):
                # rejected later than the generic parameter validation: by the validation of the group structure
                bads += [["groups", [[0, 0]]], ["groups", [[cfg["d"] + 2]]], ["groups", [[0], [0]]]]
            op["bad"] = choice(rng, bads)
        if k == "mutate_data":
            op["how"] = choice(rng, ["scale", "shift", "reverse_rows"])
        ops.append(op)
    return ops


def sample_crash(rng, is_path, seams):
    """Where an interrupted call dies: at the k-th optimiser step / GEMINI evaluation / kernel call, or - seam "line" - when
    the k-th source line of the library is about to run (k log-uniform: early validation code up to deep inside training)."""
    seam = weighted(rng, seams)
    if seam == "line":
        return {"seam": "line", "at": int(math.exp(rng.uniform(0.0, math.log(40000 if is_path else 4000))))}
    return {"seam": seam, "at": rng.randint(1, 6)}


def crash_context(op, log, res):
    """Context manager of the op's line-level crash (a null context for the other seams)."""
    import contextlib
    c = op.get("crash")
    if c and c.get("seam") == "line":
        from ..seams import LineCrash
        return LineCrash(c["at"], log, res)
    return contextlib.nullcontext()


def second_dataset(cfg, rng_seed_offset=1):
    """A second dataset of the same width for histories: same number of samples in half of the configs (what a cache keyed
    by shape would confuse), another number otherwise."""
    from ..families import make_data, make_affinity
    c = dict(cfg)
    n2 = cfg.get("n2", cfg["n"])
    c["n"] = n2
    X = make_data(c, rng_seed_offset)
    return X, make_affinity(c, X)


def run_generic_op(op, model, world, pool, cur_cfg, res, log):
    """Executes one non-judged history op.  Returns an outcome string.  Library exceptions are part of the history."""
    kind = op["op"]
    X, A = pool[op["data"]] if "data" in op else (None, None)
    world.begin_op()
    world.current_X = X            # the caller's array of this call (oracles judge against the TRUE data rows)
    world.n_eval = 0
    world.opt_raise_at = None
    saved_fault = world.gemini_fault
    world.gemini_fault = None
    log.emit("OP", op=kind, phase="begin", prefix=True)
    outcome = "ok"
    try:
        if kind in ("crash_fit", "crash_path"):
            c = op["crash"]
            if c["seam"] == "opt":
                world.opt_raise_at = c["at"]
            elif c["seam"] == "gemini":
                world.gemini_fault = {"kind": "raise", "at": c["at"]}
        if kind == "nan_path":
            world.gemini_fault = {"kind": "nan", "at": op["nan_at"]}
        if kind in ("fit", "crash_fit"):
            with crash_context(op, log, res):
                model.fit(X, A)
        elif kind in ("path", "crash_path", "nan_path"):
            with crash_context(op, log, res):
                model.path(X, A, **op.get("args", {}))
        elif kind == "score":
            model.score(X, A)
        elif kind == "predict":
            model.predict(X)
        elif kind == "set_params":
            name, val = op["change"]
            if name in model.get_params():
                model.set_params(**{name: val})
                cur_cfg["params"][name] = val
                if name in ("kernel", "metric", "base_kernel"):
                    # a sensible user drops the parameters of the previous kernel/metric together with it
                    pn = name + "_params"
                    if pn in model.get_params():
                        model.set_params(**{pn: None})
                        cur_cfg["params"][pn] = None
        elif kind == "bad_fit":
            name, val = op["bad"]
            if name in model.get_params():
                old = model.get_params()[name]
                model.set_params(**{name: val})
                try:
                    model.fit(X, A)
                    outcome = "accepted"
                except (SimFault, SimBudget):
                    raise
                except Exception as e:
                    if is_harness_frame(e):
                        raise
                    outcome = "rejected"
                    res.fault("invalid_param_fit")
                model.set_params(**{name: old})
        elif kind == "mutate_data" and not X.flags.writeable:
            outcome = "skipped"
        elif kind == "mutate_data":
            # the user changes the contents of HIS array between two calls (same object, other values)
            if op["how"] == "scale":
                X *= 1.7
            elif op["how"] == "shift":
                X += 0.9
            else:
                X[:] = X[::-1].copy()
            if A is not None:
                from ..families import make_affinity
                import numpy as np
                c = dict(cur_cfg)
                c["n"] = len(X)
                A[:] = make_affinity(c, np.asarray(X, dtype=np.float64))
            res.fault("user_mutates_own_array")
    except SimFault:
        outcome = "crashed"
    except SimBudget:
        raise
    except Exception as e:
        if is_harness_frame(e):
            raise
        outcome = "raised:" + type(e).__name__
    finally:
        world.opt_raise_at = None
        world.gemini_fault = saved_fault
    log.emit("OP", op=kind, phase="end", outcome=outcome.split(":")[0], prefix=True)
    res.probe("prefix_" + kind + ("" if outcome == "ok" else "_" + outcome.split(":")[0]))
    return outcome


class devnull_stdout:
    """verbose=True estimators print progress: keep the workers quiet."""

    def __enter__(self):
        import io
        import sys
        self._old = sys.stdout
        sys.stdout = io.StringIO()
        return self

    def __exit__(self, *a):
        import sys
        sys.stdout = self._old
        return False


def apply_layout(values, layout):
    """The caller's array in another memory layout / dtype (same values up to the float32 rounding)."""
    import numpy as np
    if layout == "F":
        return np.asfortranarray(values.copy())
    if layout == "strided":
        big = np.full((2 * values.shape[0], values.shape[1] + 1), 7.5, dtype=values.dtype)
        big[::2, :-1] = values
        return big[::2, :-1]
    if layout == "readonly":
        X = values.copy()
        X.flags.writeable = False
        return X
    if layout == "float32":
        return values.astype(np.float32)
    return values


def sample_layouts(rng, k=2, float32=True):
    kinds = [("C", 7), ("F", 1), ("strided", 1), ("readonly", 1)] + ([("float32", 1)] if float32 else [])
    return [weighted(rng, kinds) for _ in range(k)]
