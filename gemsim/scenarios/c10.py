"""C10 — mini-batches partition the data and stay aligned with the affinity matrix.

System under simulation: one estimator (plain or mlcl-decorated) driven through fit / path; the batch permutation of every
epoch is owned by the simulator (faithful or adversarial); the optimiser may be buggified (identity / scaled)."""
import math

import numpy as np

from ..core import EventLog, Result, SimFault, SimBudget, HarnessError, choice, weighted
from ..families import (sample_config, make_data, make_affinity, build_model, FAMILIES, GRADIENT_FAMILIES,
                        config_signature, needs_affinity, uses_precomputed)
from ..seams import World, ModelHarness
from .common import (sample_constraints, sample_sched, decorate, expected_batches, exc_site, is_harness_frame, quiet,
                     sample_prefix, sample_param_change, second_dataset, run_generic_op, apply_layout, sample_layouts)

PROPERTY = "C10"
KEY_EVENT = "BATCH"     # the seam this scenario depends on: it must fire somewhere in a batch of runs
RULE = ("one run = one seeded scenario record (family x GEMINI/affinity source x solver x batch_size x n,d,K x plain/"
        "mlcl-decorated x ops fit[/path/fit] x schedule plan x optimiser mode); non-trivial = some epoch had >= 2 batches; "
        "distinct = distinct (family, gemini/kernel/metric, ovo, solver, batch-size class, K, groups, dynamic, decorated, "
        "schedule plan, optimiser mode) signatures among the non-trivial runs")
STATE_MEASURE = "distinct (configuration signature, schedule plan, optimiser mode) triples over all runs"
COMPONENTS_REAL = ["gemclus estimators (all 17 gradient-trained families), _batchify, mlcl decorators, _path, compute_val_score",
                   "gemclus GEMINIs (compute_affinity/evaluate)", "scikit-learn validation, kernels, SGD/Adam moment updates"]
COMPONENTS_STUB = ["RandomState.permutation (simulator-chosen batch orders in adversarial runs; faithful pass-through otherwise)",
                   "BaseOptimizer.update_params (real / identity / scaled)", "SimGemini + SimKernel wrappers (logging only here)",
                   "crash at an arbitrary point: seams.LineCrash (sys.settrace) raises when the k-th source line of the library is about to run, in interrupted calls of the history"]
ASSUMPTIONS = ["rows of the training array are pairwise distinct so a batch row identifies one sample (generated continuous data)",
               "whether compute_affinity returns the right kernel is C11 (not claimed); C10 compares blocks with the matrix the run computed",
               "path() raising is not judged here (C07)"]


def generate(rng):
    cfg = sample_config(rng, n_range=(1, 17), max_iter_range=(1, 4), p_big=0.12)
    fam = FAMILIES[cfg["family"]]
    if rng.random() < 0.07:
        # swarm: much larger sample counts, with batch sizes near n, near divisors of n, and large ones (the arithmetic
        # of "how many batches, how long is the last one" has its own corner cases there)
        n = rng.randint(41, 170)
        cfg["n"] = n
        cfg["d"] = min(cfg["d"], 3)
        cfg["params"]["max_iter"] = rng.randint(1, 2)
        cfg["huge"] = True
        if fam["batched"]:
            b0 = rng.randint(20, n)
            cfg["params"]["batch_size"] = weighted(rng, [(b0, 3), (n - rng.randint(1, 3), 2), (max(1, n // rng.randint(2, 5)), 2),
                                                      (max(1, n // rng.randint(2, 4)) + 1, 1), (max(2, (n - rng.randint(1, 2)) // rng.randint(1, 3)), 2),
                                                      (rng.randint(1, 12), 1)])
        if cfg["params"].get("groups"):
            cfg["params"]["groups"] = [g for g in ([v for v in grp if v < cfg["d"]] for grp in cfg["params"]["groups"]) if g] or None
        if cfg["params"].get("feature_mask"):
            cfg["params"]["feature_mask"] = cfg["params"]["feature_mask"][:cfg["d"]]
            if not any(cfg["params"]["feature_mask"]):
                cfg["params"]["feature_mask"][0] = True
    kmin = max(1, cfg["params"]["n_clusters"])
    cfg["n2"] = cfg["n"] if rng.random() < 0.5 else rng.randint(kmin, max(kmin, 17))
    deco = None
    if min(cfg["n"], cfg["n2"]) >= 2 and rng.random() < 0.35:
        deco = sample_constraints(rng, min(cfg["n"], cfg["n2"]))
    cfg["decorate"] = deco
    if deco is not None and rng.random() < 0.25:
        cfg["bystander"] = {"at": rng.randint(0, 5), "deco": sample_constraints(rng, cfg["n2"], max_pairs=3)}
    cfg["layouts"] = sample_layouts(rng)
    if not uses_precomputed(cfg) and rng.random() < 0.1:
        cfg["stray_y"] = True
    if uses_precomputed(cfg):
        # a user-supplied matrix can come in any memory order and need not be exactly symmetric (e.g. a transport cost)
        cfg["affinity_layout"] = weighted(rng, [("C", 5), ("F", 3)])
        cfg["affinity_asym"] = rng.random() < 0.4
    ops = sample_prefix(rng, cfg, p_any=0.3)
    ops.append({"op": "fit", "data": 0})
    if fam.get("sparse") and cfg["d"] >= 2 and rng.random() < 0.5:
        cfg["params"]["alpha"] = choice(rng, [0.05, 0.5, 2.0])
        ops.append({"op": "path", "data": 0, "args": {"alpha_multiplier": choice(rng, [2.0, 5.0, 10.0]),
                                                      "min_features": rng.randint(1, cfg["d"]),
                                                      "max_patience": rng.randint(1, 3),
                                                      "restore_best_weights": rng.random() < 0.5}})
    if rng.random() < 0.25:
        if rng.random() < 0.5:
            ops.append({"op": weighted(rng, [("set_params", 2), ("mutate_data", 2)]), "data": 0})
            if ops[-1]["op"] == "set_params":
                ops[-1]["change"] = sample_param_change(rng, cfg)
            else:
                ops[-1]["how"] = choice(rng, ["scale", "shift", "reverse_rows"])
        ops.append({"op": "fit", "data": rng.randrange(2)})
    faults = {"sched": sample_sched(rng, decorated=bool(deco)),
              "opt": weighted(rng, [("real", 7), ("identity", 1.5), ("scaled", 1.5)]),
              "opt_scale": choice(rng, [0.1, 3.0])}
    return {"property": PROPERTY, "scenario": "batch_schedule", "config": cfg, "ops": ops, "faults": faults}


class Checker:
    def __init__(self, res, world, harness, cfg, X, A_user):
        self.res, self.world, self.h, self.cfg = res, world, harness, cfg
        self.categorical = bool(FAMILIES[cfg["family"]].get("categorical"))
        self.expected_full = None
        self.check_expected = False
        self.begin_op(X, A_user, "fit")
        self.epoch_ids = []
        self.epochs_in_op = 0
        self.batches_in_epoch = 0
        # validation-block bookkeeping
        self.val_probas = []
        self.val_evals = []

    def begin_op(self, X, A_user, kind):
        """The data and hyper-parameters of the call that starts now (they change along a history)."""
        self.X, self.A_user = X, A_user
        self.n = len(X)
        self.bs = self.h.model.get_params().get("batch_size")
        self.h.batch_size = self.bs
        self.epochs_in_op = 0
        self.check_expected = False
        self.expected_full = None
        self.expected_alt = None
        if kind in ("fit", "crash_fit") or (kind in ("path", "crash_path", "nan_path") and not getattr(self.h.model, "dynamic", False)):
            # what the full affinity of THIS call must be: the model's own GEMINI evaluated on the data being fitted now
            # (a stale matrix kept from an earlier call, other data or other hyper-parameters is what this catches)
            try:
                g = self.h.orig_get_gemini()
                self.expected_full = g.compute_affinity(np.asarray(self.kernelrim_input(X), dtype=np.float64), A_user)
                # the library may compute the affinity from the caller's array as it is (e.g. float32: path() does) or from
                # its validated float64 copy (fit() does); both are "the affinity of the data being fitted"
                self.expected_alt = g.compute_affinity(self.kernelrim_input(X), A_user) if np.asarray(X).dtype != np.float64 else None
                self.check_expected = True
            except Exception:
                self.check_expected = False

    def kernelrim_input(self, X):
        m = self.h.model
        if self.cfg["family"] == "KernelRIM":
            return X      # MI needs no affinity (compute_affinity returns None whatever the input)
        return X

    # ---- batch-level
    def on_epoch(self, h, X_full, A_full):
        self.epochs_in_op += 1
        self.epoch_ambiguous = False
        self.epoch_ids = []
        self.batches_in_epoch = 0
        res = self.res
        if len(X_full) != self.n:
            res.violate("C10:partition:wrong_full_data", {"len": int(len(X_full)), "n": self.n})
        want = self.world.last_train_affinity()
        if want is None:
            if A_full is not None and not needs_affinity(self.cfg):
                res.violate("C10:affinity_block:unexpected_affinity", {})
        else:
            if A_full is None or np.shape(A_full) != np.shape(want) or not np.array_equal(A_full, want):
                res.violate("C10:affinity_block:stale_or_foreign_full_matrix", {"epoch": h.epoch, "vs": "last computed"})
        if self.check_expected:
            exp = self.expected_full
            alt = getattr(self, "expected_alt", None)

            def differs(e):
                return (e is None) != (A_full is None) or (e is not None and (np.shape(e) != np.shape(A_full) or not np.array_equal(e, A_full)))
            if differs(exp) and (alt is None or differs(alt)):
                res.violate("C10:affinity_block:stale_or_foreign_full_matrix", {"epoch": h.epoch, "vs": "affinity of the data being fitted"})
            else:
                res.probe("full_affinity_checked_against_current_data")

    def on_batch(self, h, X_full, A_full, Xb, Ab, ids):
        res = self.res
        self.batches_in_epoch += 1
        b = len(ids)
        if not any(i < 0 for i in ids):
            self.epoch_ids.extend(ids)
        if any(i == -1 for i in ids):
            res.violate("C10:partition:foreign_row", {"ids": ids})
            return
        if any(i < -1 for i in ids):
            # identical rows and a batch that is not a slice of the permutation: who is who cannot be decided by value
            res.probe("batches_with_undecidable_duplicates")
            self.epoch_ids.extend(-2 - i if i < -1 else i for i in ids)
            self.epoch_ambiguous = True
            return
        # the rows delivered are the rows of those samples in the CALLER's data (KernelRIM batches kernel rows by design)
        if self.cfg["family"] != "KernelRIM" and np.ndim(Xb) == 2 and np.ndim(self.X) == 2 and np.shape(Xb)[1] == np.shape(self.X)[1] \
                and max(ids, default=0) < len(self.X):
            if not np.array_equal(np.asarray(self.X, dtype=np.float64)[ids], np.asarray(Xb, dtype=np.float64)):
                res.violate("C10:partition:rows_differ_from_the_data", {"ids": ids})
        eff = self.n if (self.bs is None or self.categorical) else self.bs
        if b > eff:
            res.violate("C10:batch_too_large", {"size": b, "batch_size": self.bs})
        if b == 1:
            res.probe("batch_of_one")
        if A_full is None:
            if Ab is not None:
                res.violate("C10:affinity_block:unexpected_block", {})
        else:
            A_full = np.asarray(A_full)
            want = A_full[np.ix_(ids, ids)]
            if Ab is None:
                res.violate("C10:affinity_block:missing", {"ids": ids})
            elif np.shape(Ab) != want.shape:
                how = "rows_only" if np.shape(Ab) == (b, A_full.shape[1]) else "shape"
                res.violate("C10:affinity_block:" + how, {"ids": ids, "shape": list(np.shape(Ab))})
            elif not np.array_equal(np.asarray(Ab), want):
                how = "transposed" if np.array_equal(np.asarray(Ab), want.T) else "wrong_entries"
                res.violate("C10:affinity_block:" + how, {"ids": ids})
            else:
                res.probe("affinity_blocks_checked")
        if self.categorical:
            if ids != list(range(self.n)):
                res.violate("C10:full_batch", {"ids": ids})

    def on_epoch_end(self, h):
        res = self.res
        ids = self.epoch_ids
        if getattr(self, "epoch_ambiguous", False):
            ids = list(range(self.n)) if len(ids) == self.n else ids    # only the count is decidable
        if sorted(ids) != list(range(self.n)):
            seen = set(ids)
            if len(seen) != len(ids):
                res.violate("C10:partition:duplicate", {"ids": ids})
            if seen != set(range(self.n)):
                res.violate("C10:partition:missing", {"ids": ids, "n": self.n})
        want = 1 if self.categorical else expected_batches(self.n, self.bs)
        if self.batches_in_epoch != want:
            res.violate("C10:partition:batch_count", {"got": self.batches_in_epoch, "want": want})
        if self.batches_in_epoch >= 2:
            res.probe("multi_batch_epochs")
            res.nontrivial = True
        if self.bs is not None and not self.categorical and self.n % self.bs != 0 and self.bs < self.n:
            res.probe("partial_last_batch")
        if self.bs is not None and self.bs > self.n:
            res.probe("batch_size_gt_n")

    # ---- decorated models: the recorded indices must be the true ids when the gradients are computed
    def on_compute_grads(self, Xb=None):
        model = self.h.model
        idx = getattr(model._batchify, "indices", None)
        true_ids = self.h.resolve(Xb)[2]          # the samples of the batch the gradient is computed on NOW
        if idx is None or any(i < 0 for i in true_ids):
            return
        if list(idx) != list(true_ids):
            self.res.violate("C10:indices", {"recorded": [int(i) for i in idx], "true": true_ids})
        else:
            self.res.probe("decorated_steps_checked")

    # ---- validation blocks of the path
    def on_val_score(self, world, clf, X, y, batch_size, out):
        res = self.res
        probas, evals = self.val_probas, self.val_evals
        self.val_probas, self.val_evals = [], []
        n = len(X)
        nb = math.ceil(n / batch_size)
        if len(probas) != nb or len(evals) != nb:
            res.violate("C10:val_block:count", {"proba_calls": len(probas), "evals": len(evals), "want": nb})
            return
        j = 0
        acc = 0
        dyn = bool(getattr(clf, "dynamic", False)) and y is None
        for (Xblk, sel), (yp, aff, score) in zip(probas, evals):
            b = len(Xblk)
            if b > batch_size or not np.array_equal(Xblk, X[j:j + b]):
                res.violate("C10:val_block:rows", {"j": j, "b": b})
                return
            want_p = self.raw_predict_proba(Xblk)
            if np.shape(want_p) != np.shape(yp) or not np.allclose(want_p, yp, rtol=1e-12, atol=1e-14, equal_nan=True):
                res.violate("C10:val_block:predictions", {"j": j})
            if y is not None and uses_precomputed(self.cfg):
                want_a = np.asarray(y)[j:j + b][:, j:j + b]
            else:
                # no "precomputed" affinity is configured: a second argument is documented as not used, the affinity of a
                # block is the GEMINI's own kernel / distance of its rows
                cols = sel if (dyn and len(sel) > 0) else np.arange(X.shape[1])   # nothing selected: all features
                if needs_affinity(self.cfg):
                    want_a = self.h.sim_gemini.real.compute_affinity(Xblk[:, cols])
                else:
                    want_a = None
            if want_a is None:
                if aff is not None:
                    res.violate("C10:val_block:affinity", {"j": j, "why": "unexpected"})
            elif aff is None or np.shape(aff) != np.shape(want_a) or not np.array_equal(aff, want_a):
                res.violate("C10:val_block:affinity", {"j": j, "b": b})
            acc = acc + score * b
            j += b
        if j != n:
            res.violate("C10:val_block:rows", {"covered": j, "n": n})
        acc = acc / n
        got = np.asarray(out[0]).item()
        # the weighted mean may legitimately be accumulated in another order: compare to rounding
        if not (abs(acc - got) <= 1e-12 * max(1.0, abs(acc)) or (np.isnan(acc) and np.isnan(got))):
            res.violate("C10:val_block:mean", {"got": got, "want": float(acc)})
        res.probe("val_scores_checked")


def execute(record):
    res = Result()
    log = EventLog()
    cfg = record["config"]
    faults = record.get("faults", {})
    import random
    rng = random.Random(record.get("run_seed", 0) ^ 0x5EED)
    try:
        import copy as _copy
        cur_cfg = _copy.deepcopy(cfg)       # follows successful set_params calls
        X = make_data(cfg)
        A = make_affinity(cfg, X)
        X1, A1 = second_dataset(cfg)
        lay = cfg.get("layouts") or ["C", "C"]
        X, X1 = apply_layout(X, lay[0]), apply_layout(X1, lay[1])     # the affinities were computed from the float64 values

        def user_matrix(M):
            if M is None:
                return None
            if cfg.get("affinity_asym"):
                rsA = np.random.RandomState(cfg["data_seed"] % (2 ** 31) ^ 0xA5)
                M = M + np.triu(rsA.uniform(0.0, 0.05, size=M.shape), 1)
            return np.asfortranarray(M) if cfg.get("affinity_layout") == "F" else np.ascontiguousarray(M)
        A, A1 = user_matrix(A), user_matrix(A1)
        if cfg.get("stray_y"):
            # a second argument although nothing is "precomputed": documented as not used
            def stray(n_rows, salt):
                M = np.random.RandomState((cfg["data_seed"] ^ salt) % (2 ** 31)).normal(size=(n_rows, n_rows))
                return np.ascontiguousarray((M + M.T) / 2)
            if A is None:
                A = stray(len(X), 0x57A1)
            if A1 is None:
                A1 = stray(len(X1), 0x57A2)
            res.probe("runs_with_unused_second_argument")
        pool = [(X, A), (X1, A1)]
        model = build_model(cfg, log)
        world = World(log, res, rng)
        world.opt_mode = faults.get("opt", "real")
        world.opt_scale = faults.get("opt_scale", 1.0)
        deco = cfg.get("decorate")
        pairs = []
        h = ModelHarness(world, model, cfg["family"], sched_plan=faults.get("sched", []))
        if deco:
            try:
                with quiet():
                    decorate(model, deco)
                pairs = [tuple(p) for p in deco["must_link"] + deco["cannot_link"]]
                res.probe("decorated_runs")
            except ValueError:
                res.probe("decoration_rejected")   # validation of the constraints is C14's business
                deco = None
        h.pairs = pairs
        h.wrap_batchify()
        chk = Checker(res, world, h, cur_cfg, X, A)
        h.epoch_hooks.append(chk.on_epoch)
        h.batch_hooks.append(chk.on_batch)
        h.epoch_end_hooks.append(chk.on_epoch_end)
        if deco:
            inner_cg = model._compute_grads

            by = cfg.get("bystander")
            by_state = {"k": 0}

            def run_bystander():
                # two tasks: a SECOND decorated estimator (own object, own data, own pairs) is fitted by another task, scheduled
                # between "batch yielded" and "gradient computed" of one step of the estimator under test
                import copy as _cp
                c2 = _cp.deepcopy(cfg)
                c2["params"]["random_state"] = int(c2["params"].get("random_state") or 0) + 1
                c2["params"]["verbose"] = False
                Xo, Ao = second_dataset(cfg)
                saved = (world.n_steps, world.opt_raise_at, world.gemini_fault)
                world.opt_raise_at, world.gemini_fault = None, None
                try:
                    other = build_model(c2, log)
                    decorate(other, by["deco"])
                    log.emit("TASK", task="bystander", phase="begin")
                    other.fit(Xo, Ao)
                    log.emit("TASK", task="bystander", phase="end")
                    res.fault("interleaved_second_estimator_fit")
                except (SimFault, SimBudget):
                    raise
                except Exception as e:
                    if is_harness_frame(e):
                        raise
                    res.probe("bystander_raised:" + type(e).__name__)
                finally:
                    world.n_steps, world.opt_raise_at, world.gemini_fault = saved

            def outer_cg(Xb, y_pred, gradient):
                if by is not None:
                    if by_state["k"] == by["at"]:
                        by_state["k"] += 1
                        run_bystander()
                    else:
                        by_state["k"] += 1
                chk.on_compute_grads(Xb)
                return inner_cg(Xb, y_pred, gradient)
            model._compute_grads = outer_cg
        # predict_proba spy for the validation blocks
        raw_pp = model.predict_proba
        chk.raw_predict_proba = raw_pp

        def spy_pp(Xq):
            out = raw_pp(Xq)
            if world.in_val_score:
                sel = model.get_selection() if hasattr(model, "get_selection") else None
                chk.val_probas.append((Xq, sel))     # the very object (same memory layout): recomputation is then bitwise equal
            return out
        model.predict_proba = spy_pp

        def on_eval(world_, y_pred, affinity, return_grad, out):
            if world_.in_val_score:
                chk.val_evals.append((np.array(y_pred, copy=True), None if affinity is None else np.array(affinity, copy=True),
                                      out if not return_grad else out[0]))
        world.eval_hooks.append(on_eval)
        world.val_hooks.append(chk.on_val_score)
        world.val_budget = 6000
        world.step_budget = 100000

        categorical = bool(FAMILIES[cfg["family"]].get("categorical"))
        with world, quiet():
            for op in record["ops"]:
                kind = op["op"]
                Xo, Ao = pool[op.get("data", 0)]
                before = (Xo.copy(), None if Ao is None else Ao.copy())
                chk.val_probas, chk.val_evals = [], []
                chk.begin_op(Xo, Ao, kind)
                outcome = run_generic_op(op, model, world, pool, cur_cfg, res, log)
                if outcome.startswith("raised") and kind == "fit":
                    # a library exception where the property requires normal completion
                    res.violate(f"C10:raised:{outcome.split(':')[1]}@fit", {"op": kind, "history": [o["op"] for o in record["ops"]]})
                    break
                if outcome.startswith("raised") and kind == "path":
                    res.probe("path_raised")     # whether path() completes is C07's business
                if kind == "fit" and outcome == "ok":
                    mi = model.get_params()["max_iter"]
                    n = len(Xo)
                    bs = model.get_params().get("batch_size")
                    if chk.epochs_in_op != mi:
                        res.violate("C10:epochs", {"got": chk.epochs_in_op, "want": mi})
                    want_steps = mi * (1 if categorical else expected_batches(n, bs))
                    if world.n_steps != want_steps:
                        res.violate("C10:steps", {"got": world.n_steps, "want": want_steps})
                    if getattr(model, "n_iter_", None) != mi:
                        res.violate("C10:n_iter", {"got": getattr(model, "n_iter_", None), "want": mi})
                    res.probe("fits_checked")
                if kind == "path" and outcome == "ok":
                    res.probe("paths_run")
                if kind != "mutate_data" and (not np.array_equal(Xo, before[0]) or (Ao is not None and not np.array_equal(Ao, before[1]))):
                    # the library changed the caller's array: that is C12's statement; C10 stops judging this run
                    res.probe("caller_data_modified_seen_run_abandoned")
                    break
        if log.counts.get("BATCH", 0) == 0 and not res.violations:
            res.probe("seam_silent_in_run")   # decided over the whole batch by the runner (KEY_EVENT)
    except SimBudget as e:
        res.violate("C10:budget", {"what": str(e)})
    except HarnessError as e:
        res.harness_error = "HarnessError: " + str(e)
    res.signature = config_signature(cfg) + "|" + ",".join(faults.get("sched", []) or ["faithful"]) + "|" + faults.get("opt", "real")
    res.state_keys = {res.signature}
    res.digest = log.digest()
    res.events = dict(log.counts)
    return res
