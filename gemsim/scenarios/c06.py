"""C06 — unselected features are inert; selection reads exact zeros; groups stay whole; the in-training shrinkage is the
proximal step with threshold alpha * (optimiser's current learning rate).

System: one sparse estimator driven through fit (then optionally a short path).  The optimiser is buggified (real /
identity / teleport) and a simulator hook plants rows right at the shrinkage threshold, exact zero rows and ties after the
optimiser step, i.e. before the library applies its proximal operator.  Invariants are checked after EVERY
_update_weights and at checkpoints (after fit, at every validation score of the path, after restoration)."""
import numpy as np

from ..core import EventLog, Result, SimFault, SimBudget, HarnessError, choice, weighted
from ..families import (sample_config, make_data, make_affinity, build_model, FAMILIES, SPARSE_FAMILIES, config_signature)
from ..refs import prox_group_lasso, hier_prox
from ..seams import World, ModelHarness
from .common import sample_sched, exc_site, is_harness_frame, quiet, sample_prefix, second_dataset, run_generic_op

PROPERTY = "C06"
KEY_EVENT = "PROX"     # the seam this scenario depends on: it must fire somewhere in a batch of runs
RULE = ("one run = fit (+ optional short path, with or without restoration) of one of the 5 sparse families x GEMINI x alpha x M x "
        "group structure x batch size x dynamic x solver under a buggified optimiser and threshold-planting hook; non-trivial = a "
        "partial selection (0 < #selected < d) was reached at some point of the history; distinct = distinct (family, gemini, solver, "
        "batch class, K, groups, dynamic, optimiser mode, ops)")
STATE_MEASURE = "distinct (family, grouped?, #selected features, checkpoint kind) tuples observed at checkpoints"
COMPONENTS_REAL = ["gemclus sparse estimators: _update_weights, proximal operators, get_selection, check_groups, fit, _path, restoration",
                   "scikit-learn SGD/Adam moment and learning-rate updates"]
COMPONENTS_STUB = ["BaseOptimizer.update_params (real / identity / teleport) + a hook planting rows at the threshold, exact zero rows, ties",
                   "independent proximal references (closed-form group soft-threshold; HIER-PROX by exact piecewise minimisation)",
                   "crash at an arbitrary point: seams.LineCrash (sys.settrace) raises when the k-th source line of the library is about to run, in interrupted calls of the history"]
ASSUMPTIONS = ["prox comparison tolerance 1e-9*max(1,|W|); rows outside the property's scope (zero skip row with non-zero hidden row, or "
               "alpha=0 with zero skip row: the minimiser is not unique) are skipped and counted",
               "inertness is compared exactly (multiplying finite values by exact zeros is exact)"]


def generate(rng):
    cfg = sample_config(rng, families=SPARSE_FAMILIES, n_range=(3, 12), d_range=(2, 6), k_range=(2, 4), max_iter_range=(1, 4),
                        alpha_choices=(0.0, 0.05, 0.5, 5.0, 50.0), allow_callable=False, p_big=0.12)
    cfg["n2"] = cfg["n"] if rng.random() < 0.5 else rng.randint(max(3, cfg["params"]["n_clusters"]), 12)
    ops = sample_prefix(rng, cfg, p_any=0.35) + [{"op": "fit", "data": 0}]
    if rng.random() < 0.45:
        ops.append({"op": "path", "data": 0, "args": {"alpha_multiplier": choice(rng, [2.0, 5.0]), "min_features": rng.randint(1, cfg["d"]),
                                          "max_patience": rng.randint(1, 2), "restore_best_weights": rng.random() < 0.6,
                                          "keep_threshold": choice(rng, [0.9, 0.5, 0.0])}})
        if cfg["params"]["alpha"] == 0.0:
            cfg["params"]["alpha"] = 0.05
    faults = {"sched": sample_sched(rng), "opt": weighted(rng, [("real", 4), ("identity", 2), ("teleport", 3)]),
              "teleport_sigma": choice(rng, [0.05, 0.5, 2.0]), "teleport_seed": rng.randrange(2 ** 31),
              "plant_p": weighted(rng, [(0.0, 3), (0.3, 3), (0.7, 2)]), "plant_seed": rng.randrange(2 ** 31)}
    return {"property": PROPERTY, "scenario": "sparse_training", "config": cfg, "ops": ops, "faults": faults}


class SparseOracle:
    def __init__(self, res, world, model, cfg, faults, X):
        self.res, self.world, self.m, self.cfg, self.faults = res, world, model, cfg, faults
        self.X = X
        self.mlp = bool(FAMILIES[cfg["family"]].get("mlp"))
        self.pre = None
        self.params = None
        self.plant_rs = np.random.RandomState(faults.get("plant_seed", 0))
        self.plant_p = faults.get("plant_p", 0.0)
        self.probe_rs = np.random.RandomState(faults.get("plant_seed", 0) ^ 0x77)
        self.raw_predict_proba = model.predict_proba

    # ---- row weights that carry the selection
    def sel_matrix(self):
        return self.m.W_skip_ if self.mlp else self.m.W_

    def groups(self):
        g = getattr(self.m, "groups_", None)
        d = self.sel_matrix().shape[0]
        return [[int(v) for v in x] for x in g] if g is not None else [[i] for i in range(d)]

    # ---- post optimiser step: plant interesting rows, then snapshot what the optimiser left
    def post_step(self, world, opt, params):
        m = self.m
        thr = m.alpha * opt.learning_rate
        W = self.sel_matrix()
        if self.plant_p > 0 and self.plant_rs.rand() < self.plant_p:
            groups = self.groups()
            g = groups[self.plant_rs.randint(len(groups))]
            what = self.plant_rs.choice(["just_above", "just_below", "exact_zero", "ties", "at_threshold", "half"])
            block = W[g]
            nrm = np.linalg.norm(block)
            if what == "exact_zero" and thr <= 0:
                what = "skipped_zero_row_with_alpha_0"   # out of the property's scope (no unique minimiser): do not create it
            elif what == "exact_zero":
                W[g] = 0.0
                if self.mlp:
                    m.W1_[g] = 0.0
            elif what == "ties" and self.mlp:
                m.W1_[g] = np.round(m.W1_[g] * 4) / 4
            elif nrm > 0 and thr > 0:
                factor = {"just_above": 1 + 1e-6, "just_below": 1 - 1e-6, "at_threshold": 1.0, "half": 0.5}.get(what, 1.5)
                W[g] = block * (thr * factor / nrm)
            self.res.fault("plant_" + str(what))
            world.log.emit("FAULT", kind="plant", what=str(what), group=[int(v) for v in g])
        self.pre = [np.array(p, copy=True) for p in params]
        self.params = params
        self.lr = opt.learning_rate

    # ---- after every _update_weights
    def after_update(self):
        res, m = self.res, self.m
        if self.pre is None:
            raise HarnessError("optimiser seam did not fire inside _update_weights")
        weights = m._get_weights()
        if not all(np.all(np.isfinite(p)) for p in self.pre):
            res.probe("steps_with_nonfinite_weights_skipped")   # finiteness is C17's statement, not C06's
            self.pre = None
            return
        # (b) in place
        for i, (w, p) in enumerate(zip(weights, self.params)):
            if w is not p:
                # not a violation by itself (the property does not prescribe in-place updates); if the optimiser and the
                # model drift apart because of it, the prox comparison below reports it
                res.probe("weights_rebound_param%d" % i)
        lr_now = m.optimiser_.learning_rate
        thr = m.alpha * lr_now
        groups = getattr(m, "groups_", None)
        glist = self.groups()
        if self.mlp:
            pre_W1, pre_skip = self.pre[0], self.pre[2]
            B, T, uniq = hier_prox(pre_skip, pre_W1, thr, m.M, groups if groups is not None else None)
            in_scope = np.ones(pre_skip.shape[0], dtype=bool)
            for g in glist:
                v0 = not np.any(pre_skip[g])
                u0 = not np.any(pre_W1[g])
                if v0 and not (u0 and thr > 0):
                    in_scope[g] = False
            scale = max(1.0, float(np.abs(pre_skip).max()), float(np.abs(pre_W1).max()))
            tol = 1e-9 * scale
            rows = np.where(in_scope)[0]
            res.probe("prox_rows_checked", len(rows))
            res.probe("prox_rows_out_of_scope", int((~in_scope).sum()))
            if len(rows):
                e1 = np.abs(m.W_skip_[rows] - B[rows])
                e2 = np.abs(m.W1_[rows] - T[rows])
                if not (np.all(np.isfinite(m.W_skip_[rows])) and np.all(np.isfinite(m.W1_[rows]))) or e1.max() > tol or e2.max() > tol:
                    self.classify_prox(pre_skip, pre_W1, rows, thr, lr_now, tol, groups)
            # the other parameters must be exactly what the optimiser left
            for i in (1, 3, 4):
                if not np.array_equal(weights[i], self.pre[i]):
                    res.violate("C06:prox_touched_other_parameter", {"param": i})
        else:
            pre_W = self.pre[0]
            ref = prox_group_lasso(pre_W, thr, groups if groups is not None else None)
            tol = 1e-9 * max(1.0, float(np.abs(pre_W).max()))
            res.probe("prox_rows_checked", pre_W.shape[0])
            if not np.all(np.isfinite(m.W_)) or np.abs(m.W_ - ref).max() > tol:
                # which threshold would explain it?
                alt = prox_group_lasso(pre_W, m.alpha, groups if groups is not None else None)
                alt2 = prox_group_lasso(pre_W, m.alpha * m.learning_rate, groups if groups is not None else None)
                cls = "C06:prox_value"
                if np.all(np.isfinite(m.W_)) and (np.abs(m.W_ - alt).max() <= tol or np.abs(m.W_ - alt2).max() <= tol):
                    cls = "C06:prox_threshold"
                res.violate(cls, {"alpha": float(m.alpha), "lr_now": float(lr_now), "threshold": float(thr),
                                  "max_err": float(np.nanmax(np.abs(m.W_ - ref))), "grouped": groups is not None})
            if not np.array_equal(weights[1], self.pre[1]):
                res.violate("C06:prox_touched_other_parameter", {"param": 1})
        self.pre = None
        self.check_selection("step")

    def classify_prox(self, pre_skip, pre_W1, rows, thr, lr_now, tol, groups):
        m = self.m
        cls = "C06:prox_value"
        for alt_thr in (m.alpha, m.alpha * m.learning_rate):
            if alt_thr == thr:
                continue
            B2, T2, _ = hier_prox(pre_skip, pre_W1, alt_thr, m.M, groups if groups is not None else None)
            if np.all(np.isfinite(m.W_skip_[rows])) and np.abs(m.W_skip_[rows] - B2[rows]).max() <= tol and np.abs(m.W1_[rows] - T2[rows]).max() <= tol:
                cls = "C06:prox_threshold"
        self.res.violate(cls, {"alpha": float(m.alpha), "lr_now": float(lr_now), "threshold": float(thr), "M": float(m.M),
                               "grouped": groups is not None})

    # ---- (c), (d): selection and groups, at every step and checkpoint
    def check_selection(self, where):
        res, m = self.res, self.m
        W = self.sel_matrix()
        d = W.shape[0]
        nz = np.where(np.any(W != 0, axis=1))[0]
        amax = np.abs(W).max(axis=1)
        if np.any((amax > 0) & (amax < 1e-150)):
            # a row whose entries are below sqrt(smallest normal double): its norm underflows to 0 although the row is not
            # zero.  "Non-zero row" is not decidable in floating point there (reached only by rows that receive no gradient
            # and are shrunk geometrically for hundreds of steps); not judged, counted.
            res.probe("checkpoints_with_underflowing_rows_not_judged")
            return np.where(amax >= 1e-150)[0]
        sel = np.asarray(m.get_selection())
        if not np.array_equal(np.sort(sel), nz):
            res.violate("C06:selection", {"get_selection": sel.tolist(), "nonzero_rows": nz.tolist(), "where": where})
        nsel = int(m._n_selected_features())
        if nsel != len(nz):
            res.violate("C06:selection", {"n_selected": nsel, "nonzero_rows": nz.tolist(), "where": where})
        if self.mlp:
            unsel = np.setdiff1d(np.arange(d), nz)
            if len(unsel) and np.any(m.W1_[unsel] != 0):
                res.violate("C06:hidden_row_nonzero", {"unselected": unsel.tolist(), "where": where})
        user_groups = self.cfg["params"].get("groups")
        groups_ = getattr(m, "groups_", None)
        if where == "after_rejected_fit":
            # the fitted state belongs to the last COMPLETED call; the user may have declared other groups since
            return nz
        if user_groups is None:
            if groups_ is not None:
                res.violate("C06:groups_completion", {"groups_": [list(map(int, g)) for g in groups_], "user": None})
        else:
            got = sorted(sorted(int(v) for v in g) for g in groups_) if groups_ is not None else None
            covered = {v for g in user_groups for v in g}
            want = sorted([sorted(g) for g in user_groups] + [[i] for i in range(d) if i not in covered])
            if got != want:
                res.violate("C06:groups_completion", {"groups_": got, "want": want})
            for g in user_groups:
                flags = [int(v) in set(nz.tolist()) for v in g]
                if any(flags) and not all(flags):
                    # F11 (known finding): a member whose training column is identically zero receives a zero gradient,
                    # so once the proximal step has zeroed the group and a later step revives it, that member's row stays
                    # exactly zero.  Keyed on exactly that state; any other split of a group is reported.
                    dead = [int(v) for v, f in zip(g, flags) if not f]
                    Xc = self.X
                    cls = "C06:group_split"
                    if Xc is not None and all(v < Xc.shape[1] and not np.any(Xc[:, v]) for v in dead):
                        cls = "C06:group_split:unselected_members_have_all_zero_columns"
                    res.violate(cls, {"group": list(g), "selected": nz.tolist(), "where": where})
                    break
        if 0 < len(nz) < d:
            res.nontrivial = True
            res.probe("partial_selection_states")
        return nz

    # ---- (e): inertness at checkpoints
    def checkpoint(self, kind):
        res, m = self.res, self.m
        if not hasattr(m, "W_") and not hasattr(m, "W_skip_"):
            return
        try:
            ws = m._get_weights()
        except AttributeError:
            res.probe("checkpoints_on_partial_state_skipped")      # an interrupted call left only some of the weights
            return
        if not all(np.all(np.isfinite(w)) for w in ws):
            res.probe("checkpoints_with_nonfinite_weights_skipped")
            return
        nz = self.check_selection(kind)
        d = self.sel_matrix().shape[0]
        res.state_keys.add(f"{self.cfg['family']}/{'g' if self.cfg['params'].get('groups') else 'n'}/{len(nz)}of{d}/{kind}")
        unsel = np.setdiff1d(np.arange(d), nz)
        res.probe("checkpoints_" + kind)
        if len(unsel) == 0:
            return
        X = self.X
        base = self.raw_predict_proba(X)
        for trial in range(2):
            Xp = X.copy()
            vals = self.probe_rs.normal(size=(len(X), len(unsel))) * self.probe_rs.choice([1.0, 1e3, 1e-3])
            if trial == 1:
                vals = np.where(self.probe_rs.rand(*vals.shape) < 0.3, 0.0, -np.abs(vals) * 50)
            Xp[:, unsel] = vals
            got = self.raw_predict_proba(Xp)
            if not np.array_equal(base, got):
                res.violate("C06:not_inert@" + kind, {"unselected": unsel.tolist(), "max_change": float(np.nanmax(np.abs(base - got)))})
                return
        res.probe("inertness_checked")


def execute(record):
    res = Result()
    log = EventLog()
    cfg = record["config"]
    faults = record.get("faults", {})
    import random
    rng = random.Random(record.get("run_seed", 0) ^ 0xC06)
    try:
        X = make_data(cfg)
        A = make_affinity(cfg, X)
        model = build_model(cfg, log)
        world = World(log, res, rng)
        world.opt_mode = faults.get("opt", "real")
        world.teleport_sigma = faults.get("teleport_sigma", 0.0)
        world.teleport_rs = np.random.RandomState(faults.get("teleport_seed", 0))
        h = ModelHarness(world, model, cfg["family"], sched_plan=faults.get("sched", []))
        h.wrap_batchify()
        oracle = SparseOracle(res, world, model, cfg, faults, X)
        world.post_step_hooks.append(oracle.post_step)
        orig_uw = model._update_weights

        def spy_uw(weights, grads):
            orig_uw(weights, grads)
            log.emit("PROX", alpha=float(model.alpha), lr=float(model.optimiser_.learning_rate),
                     nsel=int(model._n_selected_features()))
            oracle.after_update()
        model._update_weights = spy_uw
        world.val_hooks.append(lambda w, clf, Xv, yv, b, out: oracle.checkpoint("val_score"))
        world.val_budget = 1200
        world.step_budget = 20000
        import copy as _copy
        cur_cfg = _copy.deepcopy(cfg)
        oracle.cfg = cur_cfg                 # the user's current hyper-parameters (groups may change along the history)
        pool = [(X, A), second_dataset(cfg)]
        state_complete = False
        with world, quiet():
            for op in record["ops"]:
                kind = op["op"]
                oracle.X = pool[op.get("data", 0)][0]
                oracle.pre = None
                outcome = run_generic_op(op, model, world, pool, cur_cfg, res, log)
                if kind in ("fit", "path", "nan_path", "crash_fit", "crash_path"):
                    # an interrupted call may leave a partial state (some weights re-initialised, others not): no clause of
                    # the property speaks about it, and nothing is judged until a training call has completed again
                    state_complete = (outcome == "ok")
                if outcome == "rejected" and kind == "bad_fit" and state_complete:
                    # a call REJECTED by validation leaves the estimator as it was: everything "after any fit or path" still
                    # holds for the state of the last completed call
                    oracle.checkpoint("after_rejected_fit")
                if outcome != "ok":
                    continue
                if kind == "fit":
                    oracle.checkpoint("after_fit")
                elif kind in ("path", "nan_path"):
                    oracle.checkpoint("after_path_restore" if op.get("args", {}).get("restore_best_weights") else "after_path")
                    res.probe("paths_run")
        if log.counts.get("PROX", 0) == 0 and not any(k.startswith("prefix_fit_raised") for k in res.probes):
            res.probe("seam_silent_in_run")   # decided over the whole batch by the runner (KEY_EVENT)
    except SimBudget:
        res.probe("budget_exhausted")
    except HarnessError as e:
        res.harness_error = "HarnessError: " + str(e)
    res.signature = config_signature(cfg) + "|" + faults.get("opt", "real") + "|" + ">".join(o["op"] for o in record["ops"])
    res.digest = log.digest()
    res.events = dict(log.counts)
    return res
