"""C14 — must-link / cannot-link constraints: exact validation, right samples, right sign.

Op 1: add_mlcl_constraint(model, must_link, cannot_link, factor) with generated pair sets over arbitrary, non-contiguous,
unordered sample indices (and malformed inputs), judged against a union-find reference model of the rule.
Op 2: fit of the decorated model under simulator-owned batch schedules that split or join the constrained pairs; at every
decorated gradient computation the injected term  G_seen - G_pure  is compared with  +/- factor * (p_i - p_j)  on the
rows of the in-batch pairs, located through the TRUE sample ids of the batch."""
import numpy as np

from ..core import EventLog, Result, SimFault, SimBudget, HarnessError, choice, weighted
from ..families import sample_config, make_data, make_affinity, build_model, FAMILIES, config_signature
from ..refs import mlcl_accepts
from ..seams import World, ModelHarness
from .common import sample_sched, exc_site, is_harness_frame, quiet, sample_prefix, second_dataset, run_generic_op, decorate

PROPERTY = "C14"
KEY_EVENT = "BATCH"     # the seam this scenario depends on: it must fire somewhere in a batch of runs
RULE = ("one run = one add_mlcl_constraint call with a generated (must_link, cannot_link, factor, input format) on a sampled "
        "model family, followed — when accepted — by a fit under a simulator-owned batch schedule; non-trivial = a rejection was "
        "judged or at least one batch contained both samples of a pair; distinct = distinct (family, batch class, input format, "
        "case kind, #ML, #CL, schedule plan)")
STATE_MEASURE = "distinct (case kind, verdict, pairs-in-batch pattern) triples"
COMPONENTS_REAL = ["gemclus.mlcl (validation, decorate_batch, decorate_grads)", "decorated estimators' fit loop, _batchify, _compute_grads",
                   "gemclus GEMINIs (the pure gradient is recomputed by the real GEMINI on the same inputs)"]
COMPONENTS_STUB = ["RandomState.permutation (split_pairs / join_pairs / other adversarial orders, or faithful)",
                   "a spy under the decorator on _compute_grads; BaseOptimizer.update_params real/identity",
                   "crash at an arbitrary point: seams.LineCrash (sys.settrace) raises when the k-th source line of the library is about to run, in interrupted calls of the history"]
ASSUMPTIONS = ["the pure GEMINI gradient is deterministic, so G_seen - G_pure isolates the injected term (an error in a GEMINI gradient cancels)",
               "tolerance 1e-9*max(1,|G|) on the injected term (it is accumulated in place in floating point)"]


def gen_case(rng, n, for_fit):
    """Returns dict(must_link, cannot_link, fmt, kind).  Indices are arbitrary (non-contiguous, unordered) in [0, n)."""
    kind = weighted(rng, [("valid", 5), ("contradiction_direct", 1), ("contradiction_transitive", 2), ("self_pair", 1),
                          ("malformed", 1.5), ("empty", 0.7)])
    if n < 4 and kind in ("contradiction_transitive",):
        kind = "valid"
    pool = list(range(n))
    rng.shuffle(pool)
    m = rng.randint(2, min(n, 9 if n <= 14 else 22))
    long_chain = rng.random() < 0.15 and n >= 6
    if long_chain:
        m = rng.randint(6, min(n, 34))      # long path-like must-link components (reachability over many hops)
    nodes = pool[:m]
    ml, cl = [], []
    # components over the chosen nodes
    comps = []
    i = 0
    while i < len(nodes):
        size = rng.randint(1, 4 if n <= 14 else 7)
        if long_chain and i == 0:
            size = rng.randint(6, m)
        comps.append(nodes[i:i + size])
        i += size
    for comp in comps:
        if len(comp) >= 2:
            shape = choice(rng, ["chain", "star", "cycle"]) if not (long_chain and comp is comps[0]) else "chain"
            if shape == "chain" or len(comp) == 2:
                ml += [[comp[t], comp[t + 1]] for t in range(len(comp) - 1)]
            elif shape == "star":
                ml += [[comp[0], c] for c in comp[1:]]
            else:
                ml += [[comp[t], comp[(t + 1) % len(comp)]] for t in range(len(comp))]
    ml = [p if rng.random() < 0.5 else p[::-1] for p in ml]
    rng.shuffle(ml)
    comp_of = {}
    for ci, comp in enumerate(comps):
        for v in comp:
            comp_of[v] = ci
    # cannot-link pairs across components (valid)
    others = [v for v in range(n) if v not in comp_of]
    cands = nodes + others[:4]
    for _ in range(rng.randint(0, 4)):
        a, b = rng.sample(cands, 2) if len(cands) >= 2 else (0, 0)
        if a != b and (comp_of.get(a, -1 - a) != comp_of.get(b, -1 - b)):
            cl.append([a, b])
    big = [c for c in comps if len(c) >= 2]
    if kind == "contradiction_direct":
        if ml:
            p = choice(rng, ml)
            cl.append(p[::-1] if rng.random() < 0.5 else list(p))
        else:
            kind = "valid"
    elif kind == "contradiction_transitive":
        big3 = [c for c in comps if len(c) >= 3]
        if big3:
            c = choice(rng, big3) if not long_chain else comps[0]
            a, b = rng.sample(c, 2)
            if rng.random() < 0.5:
                a, b = c[0], c[-1]            # the two ends of a chain: the farthest pair
            cl.append([a, b] if rng.random() < 0.5 else [b, a])
        elif big:
            c = choice(rng, big)
            cl.append([c[0], c[1]])
        else:
            kind = "valid"
    elif kind == "self_pair":
        v = choice(rng, nodes)
        (ml if rng.random() < 0.5 else cl).append([v, v])
    elif kind == "empty":
        if rng.random() < 0.5:
            ml = []
        else:
            cl = []
        if rng.random() < 0.3:
            ml, cl = [], []
    rng.shuffle(cl)
    if rng.random() < 0.15:
        # "whatever the sample indices are": some labels name NO training sample (negative, or beyond the data).  The
        # relabelling is injective, so the must-link graph and the verdict of the validation are unchanged; in training
        # a pair with such a member never has both samples in a batch and contributes nothing.
        labels = sorted({v for p in ml + cl for v in p})
        ren = {}
        for v in labels:
            if rng.random() < 0.5:
                mode = choice(rng, ["neg", "neg", "far_neg", "beyond"])
                ren[v] = {"neg": -(v + 1), "far_neg": -(n + 1 + v), "beyond": n + v}[mode]
        ml = [[ren.get(a, a), ren.get(b, b)] for a, b in ml]
        cl = [[ren.get(a, a), ren.get(b, b)] for a, b in cl]
        foreign = True
    else:
        foreign = False
    fmt = weighted(rng, [("tuples", 3), ("lists", 2), ("array", 2), ("none_if_empty", 1)])
    case = dict(must_link=ml, cannot_link=cl, fmt=fmt, kind=kind, factor=choice(rng, [0.5, 1.0, 2.5, 7.0]))
    if foreign:
        case["foreign_labels"] = True
    if kind == "malformed":
        case["malform"] = dict(which=choice(rng, ["must_link", "cannot_link"]),
                               how=choice(rng, ["scalar", "flat_list", "one_column", "string"]))
    return case


def materialise(pairs, fmt):
    if fmt == "array":
        return np.array(pairs, dtype=int).reshape(-1, 2) if pairs else np.zeros((0, 2), dtype=int)
    if fmt == "lists":
        return [list(p) for p in pairs]
    if fmt == "none_if_empty" and not pairs:
        return None
    return [tuple(p) for p in pairs]


def malform(value, how, pairs):
    if how == "scalar":
        return 3
    if how == "flat_list":
        return [v for p in (pairs or [[0, 1]]) for v in p]
    if how == "one_column":
        return np.array([[p[0]] for p in (pairs or [[0, 1]])], dtype=int)
    if how == "string":
        return "0,1"
    return value


def generate(rng):
    cfg = sample_config(rng, n_range=(4, 14), k_range=(2, 4), max_iter_range=(1, 3), allow_callable=False, p_big=0.12)
    if rng.random() < 0.06:
        # swarm: realistic sizes (hundreds of samples, mini-batches of 13-40 rows) with hub samples in several pairs
        cfg["n"] = rng.randint(100, 300)
        cfg["d"] = min(cfg["d"], 3)
        cfg["params"]["max_iter"] = 1
        if FAMILIES[cfg["family"]]["batched"]:
            cfg["params"]["batch_size"] = rng.randint(13, 40)
        if cfg["params"].get("groups"):
            cfg["params"].pop("groups")
        if cfg["params"].get("feature_mask"):
            cfg["params"].pop("feature_mask")
        cfg["huge"] = True
    case = gen_case(rng, cfg["n"], True)
    if rng.random() < 0.25:
        # validation only, with large non-contiguous indices: "whatever the sample indices are"
        case = gen_case(rng, rng.choice([50, 1000, 7]), False)
        case["validation_only"] = True
    if not case.get("validation_only") and rng.random() < 0.12:
        from .common import sample_constraints
        case["second"] = sample_constraints(rng, cfg["n"], max_pairs=2)      # the decorated model is decorated once more
    if not case.get("validation_only") and rng.random() < 0.06:
        import math
        case["crash_decoration_at"] = int(math.exp(rng.uniform(0.0, math.log(400))))
    if not case.get("validation_only") and case["kind"] != "valid" and rng.random() < 0.6:
        # the rejected call is caught and the SAME estimator is used further (fitted, or decorated with a corrected set)
        case["use_after_reject"] = True
        if "second" not in case and rng.random() < 0.5:
            from .common import sample_constraints
            case["second"] = sample_constraints(rng, cfg["n"], max_pairs=3)
    cfg["case"] = case
    cfg["n2"] = cfg["n"] if rng.random() < 0.6 else cfg["n"] + rng.randint(1, 5)
    if not case.get("validation_only") and rng.random() < 0.1:
        # two tasks: a SECOND decorated estimator (own object, own data, own pairs) is trained by another task; the scheduler
        # runs its whole fit between "batch yielded" and "gradient computed" of the at-th step of the estimator under test
        from .common import sample_constraints
        case["bystander"] = {"at": rng.randint(0, 5), "deco": sample_constraints(rng, cfg["n2"], max_pairs=3)}
    faults = {"sched": sample_sched(rng, decorated=True), "opt": weighted(rng, [("real", 4), ("identity", 1)])}
    # the decorated object lives through a history: earlier / interrupted / rejected fits, parameter changes, other data
    ops = [{"op": "decorate"}] + sample_prefix(rng, cfg, p_any=0.5, allow_path=True) + [{"op": "fit", "data": 0}]
    if FAMILIES[cfg["family"]]["batched"] and cfg["n"] >= 3 and rng.random() < 0.08:
        # a hyper-parameter the decoration could have snapshotted: decorated as a full-batch model, trained with mini-batches
        # (and the other way round)
        small = rng.randint(1, cfg["n"] - 1)
        first, then = (None, small) if rng.random() < 0.6 else (small, None)
        cfg["params"]["batch_size"] = first
        ops.insert(1, {"op": "set_params", "change": ["batch_size", then]})
    if rng.random() < 0.2:
        ops.append({"op": "fit", "data": rng.randrange(2)})
    return {"property": PROPERTY, "scenario": "mlcl", "config": cfg, "ops": ops, "faults": faults}


def execute(record):
    res = Result()
    log = EventLog()
    cfg = record["config"]
    case = cfg["case"]
    faults = record.get("faults", {})
    import random
    rng = random.Random(record.get("run_seed", 0) ^ 0xC14)
    try:
        from gemclus.mlcl import add_mlcl_constraint
        X = make_data(cfg)
        A = make_affinity(cfg, X)
        model = build_model(cfg, log)
        world = World(log, res, rng)
        world.opt_mode = faults.get("opt", "real")
        ml, cl = case["must_link"], case["cannot_link"]
        if case.get("foreign_labels"):
            res.probe("labels_naming_no_sample")
        ml_arg, cl_arg = materialise(ml, case["fmt"]), materialise(cl, case["fmt"])
        well_formed = True
        if case.get("malform"):
            well_formed = False
            if case["malform"]["which"] == "must_link":
                ml_arg = malform(ml_arg, case["malform"]["how"], ml)
            else:
                cl_arg = malform(cl_arg, case["malform"]["how"], cl)
        want_accept, reason = mlcl_accepts([tuple(p) for p in ml], [tuple(p) for p in cl])
        if not well_formed:
            want_accept, reason = False, "malformed_" + case["malform"]["how"]
        # a spy UNDER the decorator: the decorator will call it with the gradient it modified
        seen = {}
        inner_cg = model._compute_grads

        def spy_cg(Xb, y_pred, gradient):
            seen["args"] = (np.array(y_pred, copy=True), np.array(gradient, copy=True))
            return inner_cg(Xb, y_pred, gradient)
        model._compute_grads = spy_cg
        h = ModelHarness(world, model, cfg["family"], sched_plan=faults.get("sched", []))
        log.emit("OP", op="decorate", phase="begin", kind=case["kind"], n_ml=len(ml), n_cl=len(cl))
        accepted, exc = True, None
        first_done = False
        stacked_by_crash = False
        if case.get("crash_decoration_at"):
            # the decorating call itself is interrupted when its k-th source line is about to run (the estimator may be left
            # half decorated: _batchify wrapped, _compute_grads not); the caller then simply decorates again
            from ..seams import LineCrash
            with quiet():
                try:
                    with LineCrash(case["crash_decoration_at"], log, res):
                        out = add_mlcl_constraint(model, ml_arg, cl_arg, case["factor"])
                    first_done = True
                    res.probe("decoration_survived_the_crash_point")
                except SimFault:
                    res.probe("decoration_interrupted")
                    if model._compute_grads is not spy_cg:
                        # interrupted after the gradient wrapper was installed: that decoration is in effect, and decorating
                        # again stacks a second one (as two complete calls would)
                        stacked_by_crash = True
                        res.probe("decoration_interrupted_after_it_took_effect")
                except Exception as e:
                    if is_harness_frame(e):
                        raise
                    accepted, exc, first_done = False, e, True
        with quiet():
            try:
                if not first_done:
                    out = add_mlcl_constraint(model, ml_arg, cl_arg, case["factor"])
            except Exception as e:
                if is_harness_frame(e):
                    raise
                accepted, exc = False, e
        log.emit("OP", op="decorate", phase="end", accepted=accepted)
        res.probe(("accepted_" if accepted else "rejected_") + reason)
        res.state_keys.add(f"{case['kind']}/{accepted}")
        if accepted != want_accept:
            which = "false_accept" if accepted else "false_reject"
            res.violate(f"C14:validation:{which}:{reason}", {"must_link": ml, "cannot_link": cl, "fmt": case["fmt"],
                                                             "malform": case.get("malform"),
                                                             "exc": None if exc is None else type(exc).__name__,
                                                             "msg": None if exc is None else str(exc)[:160]})
        elif not accepted:
            res.nontrivial = True
            if not isinstance(exc, (ValueError, TypeError)):
                res.violate(f"C14:validation:wrong_exception:{reason}", {"exc": type(exc).__name__, "msg": str(exc)[:160]})
        elif accepted and out is not model:
            res.violate("C14:validation:returned_other_object", {})
        # A REJECTED call must leave no trace: the caller catches the ValueError and goes on using the same estimator
        # (fits it as it is, or decorates it with a corrected set) - no pair of the rejected set may then act.
        after_reject = (not accepted) and (not want_accept) and bool(case.get("use_after_reject"))
        if ((accepted and want_accept) or after_reject) and not case.get("validation_only"):
            pairs_ml = [tuple(p) for p in ml] if accepted else []
            pairs_cl = [tuple(p) for p in cl] if accepted else []
            factor = case["factor"]
            decorated = accepted
            if after_reject:
                res.probe("estimator_used_after_rejected_decoration")
            # (i, j, signed factor): + pushes apart (cannot-link), - pulls together (must-link)
            terms = [(i, j, factor) for (i, j) in pairs_cl] + [(i, j, -factor) for (i, j) in pairs_ml]
            if stacked_by_crash and accepted:
                terms = terms + terms
            second = case.get("second")
            if second:
                ok2, _ = mlcl_accepts([tuple(p) for p in second["must_link"]], [tuple(p) for p in second["cannot_link"]])
                if ok2:
                    try:
                        with quiet():
                            add_mlcl_constraint(model, [tuple(p) for p in second["must_link"]] or None,
                                                [tuple(p) for p in second["cannot_link"]] or None, second["factor"])
                        terms += [(i, j, second["factor"]) for (i, j) in map(tuple, second["cannot_link"])]
                        terms += [(i, j, -second["factor"]) for (i, j) in map(tuple, second["must_link"])]
                        pairs_cl = pairs_cl + [tuple(p) for p in second["cannot_link"]]
                        pairs_ml = pairs_ml + [tuple(p) for p in second["must_link"]]
                        decorated = True
                        res.probe("stacked_decorations" if accepted else "corrected_set_after_rejection")
                    except ValueError as e:
                        res.violate("C14:validation:false_reject:second_decoration", {"second": second, "msg": str(e)[:160]})
            h.pairs = pairs_ml + pairs_cl
            if after_reject and well_formed:
                # the adversarial batch orders join / split the pairs of the REJECTED set too (a trace of it would act there)
                h.pairs = h.pairs + [tuple(p) for p in ml + cl if len(p) == 2]
            h.wrap_batchify()
            outer_inner = model._compute_grads   # the (outermost) decorator's intercept_grads

            by = case.get("bystander")
            step_no = [0]

            def run_bystander():
                import copy as _cp
                c2 = _cp.deepcopy(cfg)
                c2["params"]["random_state"] = int(c2["params"].get("random_state") or 0) + 1
                c2["params"]["verbose"] = False
                Xo, Ao = second_dataset(cfg)
                other = build_model(c2, log)
                try:
                    decorate(other, by["deco"])
                    log.emit("TASK", task="bystander", phase="begin")
                    other.fit(Xo, Ao)
                    log.emit("TASK", task="bystander", phase="end")
                    res.fault("interleaved_second_estimator_fit")
                except (SimFault, SimBudget):
                    raise
                except Exception as e:
                    if is_harness_frame(e):
                        raise
                    res.probe("bystander_raised:" + type(e).__name__)

            def outer_cg(Xb, y_pred, gradient):
                if by is not None and step_no[0] == by["at"]:
                    step_no[0] += 1
                    run_bystander()
                else:
                    step_no[0] += 1
                _, Ab_now, ids_now = h.resolve(Xb)
                ids = list(ids_now)
                if any(i < 0 for i in ids):
                    res.probe("batches_with_undecidable_duplicates")     # identical rows, batch not a slice of the permutation
                    return outer_inner(Xb, y_pred, gradient)
                rec_idx = getattr(model._batchify, "indices", None)
                if decorated and (rec_idx is None or list(rec_idx) != ids):
                    res.violate("C14:indices", {"recorded": None if rec_idx is None else [int(v) for v in rec_idx], "true": ids})
                Ab = Ab_now
                P = np.array(y_pred, copy=True)
                _, G_pure = h.sim_gemini.real.evaluate(P.copy(), Ab, return_grad=True)
                G_pure = np.array(G_pure, copy=True)
                try:
                    ret = outer_inner(Xb, y_pred, gradient)
                except (SimFault, SimBudget):
                    raise
                except Exception as e:
                    if is_harness_frame(e):
                        raise
                    if exc_site(e) in ("intercept_grads", "disguise_batch", "decorate_grads", "decorate_batch"):
                        res.violate(f"C14:raised:{type(e).__name__}@{exc_site(e)}", {"msg": str(e)[:200]})
                    raise
                if "args" not in seen:
                    raise HarnessError("inner _compute_grads spy never called by the decorator")
                yp_seen, G_seen = seen.pop("args")
                delta = G_seen - G_pure
                want = np.zeros_like(delta)
                touched = set()
                n_in = 0
                for (i, j, f) in terms:
                    if i in ids and j in ids:
                        a, b = ids.index(i), ids.index(j)
                        want[a] += f * (P[a] - P[b])
                        want[b] += f * (P[b] - P[a])
                        touched.update((a, b))
                        n_in += 1
                tol = 1e-9 * max(1.0, float(np.abs(G_seen).max()), float(np.abs(want).max()))
                res.probe("decorated_steps")
                in_batch_any = sum(1 for (i, j) in pairs_cl + pairs_ml if (i in ids) != (j in ids))
                if n_in:
                    res.probe("steps_with_pair_in_batch")
                    res.nontrivial = True
                if in_batch_any:
                    res.probe("steps_with_split_pair")
                res.state_keys.add(f"{case['kind']}/fit/in={min(n_in, 3)}/split={min(in_batch_any, 2)}")
                for r in range(delta.shape[0]):
                    if r not in touched and np.abs(delta[r]).max() > tol:
                        res.violate("C14:delta:unexpected_row", {"row": r, "sample": ids[r], "delta": delta[r].tolist(), "ids": ids})
                        return ret
                bad = np.abs(delta - want) > tol
                if bad.any():
                    r = int(np.argwhere(bad)[0][0])
                    if np.abs(delta[r] + want[r]).max() <= tol:
                        cls = "C14:delta:wrong_sign"
                    elif np.abs(delta[r]).max() <= tol:
                        cls = "C14:delta:missing_row"
                    else:
                        cls = "C14:delta:wrong_value"
                    res.violate(cls, {"row": r, "sample": ids[r], "got": delta[r].tolist(), "want": want[r].tolist(), "ids": ids,
                                      "factor": factor})
                return ret
            model._compute_grads = outer_cg
            import copy as _copy
            cur_cfg = _copy.deepcopy(cfg)
            pool = [(X, A), second_dataset(cfg)]
            with world, quiet():
                for op in record["ops"]:
                    if op["op"] == "decorate":
                        continue
                    seen.pop("args", None)
                    outcome = run_generic_op(op, model, world, pool, cur_cfg, res, log)
                    if outcome.startswith("raised"):
                        res.probe("op_raised:" + op["op"] + ":" + outcome.split(":")[1])
            if log.counts.get("BATCH", 0) == 0:
                res.probe("seam_silent_in_run")   # decided over the whole batch by the runner (KEY_EVENT)
    except HarnessError as e:
        res.harness_error = "HarnessError: " + str(e)
    bs = cfg["params"].get("batch_size")
    res.signature = "|".join(str(v) for v in (cfg["family"], "none" if bs is None else ("1" if bs == 1 else ("ge_n" if bs >= cfg["n"] else "mid")),
                                              case["fmt"], case["kind"], len(case["must_link"]), len(case["cannot_link"]),
                                              ",".join(faults.get("sched", []) or ["faithful"])))
    res.digest = log.digest()
    res.events = dict(log.counts)
    return res
