"""C07 — the regularisation path honours its stopping, history and best-weights contract.

The oracle is an executable reference model of the rule, fed by the VAL_SCORE events of the run (interposer on the module
attribute gemclus.sparse._base_sparse.compute_val_score): from the sequence (alpha, score, weight snapshot) it recomputes
what path() must return and the state it must leave.  Out-of-range arguments are judged against a twin execution with the
documented default passed explicitly.  Faults: GEMINI returning NaN from its k-th evaluation on (the documented abort
branch), optimiser teleports (several / all features vanish in one step).  Liveness: a validation-score budget."""
import copy

import numpy as np

from ..core import EventLog, Result, SimFault, SimBudget, HarnessError, choice, weighted
from ..families import (sample_config, make_data, make_affinity, build_model, FAMILIES, SPARSE_FAMILIES, config_signature)
from ..seams import World, ModelHarness
from .common import sample_sched, exc_site, is_harness_frame, quiet, sample_prefix, second_dataset, run_generic_op

PROPERTY = "C07"
KEY_EVENT = "VAL_SCORE"     # the seam this scenario depends on: it must fire somewhere in a batch of runs
RULE = ("one run = one path() call on one of the 5 sparse families x GEMINI x alpha x alpha_multiplier (incl. <= 1) x min_features "
        "(incl. <= 0 and >= d) x keep_threshold (incl. outside [0,1]) x early-stopping settings x batch size x precomputed/computed "
        "affinity x dynamic x restore flag, optionally with a NaN-from-evaluation-k GEMINI fault or optimiser teleports; non-trivial = "
        "the path recorded >= 2 steps; distinct = distinct (family, gemini, batch class, groups, dynamic, argument classes, fault, "
        "number of recorded steps capped at 6)")
STATE_MEASURE = "distinct (number of recorded steps, feature-count trajectory, index of the best-weights step, abort kind) tuples"
COMPONENTS_REAL = ["gemclus.sparse._base_sparse._path (outer/inner loops, patience, best-score and best-weights rules), path() wrappers and restoration",
                   "compute_val_score, sparse estimators' fit / _update_weights / prox, GEMINIs, scikit-learn SGD optimiser"]
COMPONENTS_STUB = ["compute_val_score interposer (calls the real function; records alpha, score, weight snapshot; carries the liveness budget)",
                   "SimGemini NaN fault; BaseOptimizer.update_params real/teleport", "reference model of the path rule (this module)",
                   "crash at an arbitrary point: seams.LineCrash (sys.settrace) raises when the k-th source line of the library is about to run, in interrupted calls of the history"]
ASSUMPTIONS = ["in-domain runs use alpha_0 >= 1e-3 and a multiplier > 1 so termination within the budget is implied by the geometric schedule",
               "the group-lasso penalty and feature count of a step are recomputed from the weight snapshot (tolerance 1e-12 relative)",
               "alphas must grow by the multiplier to 1e-12 relative (exact float product or an equivalent closed form)"]

DEFAULTS = {"alpha_multiplier": 1.05, "min_features": 2, "keep_threshold": 0.9}
DEFAULT_ALPHA = 1e-2


def generate(rng):
    cfg = sample_config(rng, families=SPARSE_FAMILIES, n_range=(4, 18), d_range=(2, 6), k_range=(2, 3), max_iter_range=(1, 5),
                        alpha_choices=(1e-3, 0.05, 1.0, 20.0), lr_choices=(1e-2, 0.1), allow_callable=False, p_big=0.1)
    d = cfg["d"]
    args = {"alpha_multiplier": weighted(rng, [(1.2, 1), (2.0, 3), (5.0, 3), (0.5, 0.5), (1.0, 0.5)]),
            "min_features": weighted(rng, [(1, 2), (2, 2), (max(1, d - 1), 2), (d, 0.7), (d + 2, 0.5), (0, 0.5), (-1, 0.3)]),
            "keep_threshold": weighted(rng, [(0.9, 3), (0.5, 1), (0.0, 0.7), (1.0, 1), (1.5, 0.4), (-0.2, 0.4)]),
            "restore_best_weights": rng.random() < 0.6,
            "early_stopping_factor": choice(rng, [0.99, 0.9, 0.5]),
            "max_patience": choice(rng, [1, 2, 3, 10])}
    out_of_range = args["alpha_multiplier"] <= 1 or args["min_features"] <= 0 or not (0 <= args["keep_threshold"] <= 1)
    if rng.random() < 0.04:
        cfg["params"]["alpha"] = 0.0          # accepted hyper-parameter value; the schedule 0*m never grows
        out_of_range = True
    if out_of_range:
        # the twin run uses the default multiplier 1.05: keep it short
        cfg["params"]["learning_rate"] = 0.1
        cfg["params"]["max_iter"] = min(cfg["params"]["max_iter"], 2)
        args["max_patience"] = 1
        cfg["n"] = min(cfg["n"], 10)
        if cfg["params"].get("batch_size") is not None:
            cfg["params"]["batch_size"] = max(cfg["params"]["batch_size"], 3)
    fault = weighted(rng, [("none", 6), ("gemini_nan", 1.5), ("teleport", 2)]) if not out_of_range else "none"
    faults = {"sched": sample_sched(rng), "kind": fault, "opt": "teleport" if fault == "teleport" else "real",
              "teleport_sigma": choice(rng, [0.05, 0.5]), "teleport_seed": rng.randrange(2 ** 31),
              "nan_at": rng.randint(1, 60)}
    cfg["n2"] = cfg["n"] if rng.random() < 0.5 else rng.randint(4, 14)
    prefix = [] if out_of_range else sample_prefix(rng, cfg, p_any=0.3, max_len=3, allow_mutate=False)
    # hyper-parameter changes of the prefix must keep the path in-domain (alpha > 0 is kept by sample_param_change)
    return {"property": PROPERTY, "scenario": "path", "config": cfg, "ops": prefix + [{"op": "path", "args": args}], "faults": faults}


def snapshot_stats(weights, mlp):
    W = weights[2] if mlp else weights[0]
    norms = np.sqrt((W ** 2).sum(1))
    return int((np.any(W != 0, axis=1)).sum()), float(norms.sum())


class PathModel:
    """Reference model of the path rule, fed by VAL_SCORE events."""

    def __init__(self, mlp):
        self.mlp = mlp
        self.events = []

    def on_val(self, world, clf, X, y, batch_size, out):
        ws = [np.array(w, copy=True) for w in clf._get_weights()]
        nsel, pen = snapshot_stats(ws, self.mlp)
        self.events.append(dict(alpha=float(clf.alpha), score=float(np.asarray(out[0]).item()), weights=ws, nsel=nsel, pen=pen))

    def steps(self):
        init = self.events[0]
        groups = []
        for e in self.events[1:]:
            if groups and groups[-1][-1]["alpha"] == e["alpha"]:
                groups[-1].append(e)
            else:
                groups.append([e])
        aborted = False
        if groups and np.isnan(groups[-1][-1]["score"]):
            groups = groups[:-1]
            aborted = True
        return init, [g[-1] for g in groups], aborted


def run_path(cfg, args, faults, log, res, world, prefix=(), alpha_override=None):
    """Build a fresh estimator, live through the prefix of the history, run path(), return everything the oracle needs."""
    X = make_data(cfg)
    A = make_affinity(cfg, X)
    model = build_model(cfg, log)
    mlp = bool(FAMILIES[cfg["family"]].get("mlp"))
    import random
    # the schedule of a run is a function of the record alone, so that a twin execution sees the same batch orders
    h = ModelHarness(world, model, cfg["family"], sched_plan=faults.get("sched", []),
                     rng=random.Random(faults.get("teleport_seed", 0) ^ 0x5C4ED))
    h.wrap_batchify()
    world.teleport_rs = np.random.RandomState(faults.get("teleport_seed", 0))
    pm = PathModel(mlp)
    cur_cfg = copy.deepcopy(cfg)
    if prefix:
        world.val_hooks = []
        saved = world.gemini_fault
        world.gemini_fault = None
        pool = [(X, A), second_dataset(cfg)]
        with quiet():
            for op in prefix:
                run_generic_op(op, model, world, pool, cur_cfg, res, log)
        world.gemini_fault = saved
    world.val_hooks = [pm.on_val]
    world.n_val = 0
    world.n_eval = 0
    # "the alphas start at the model's alpha": what the object holds when path() is called (an interrupted earlier path may
    # legitimately have left it changed)
    if alpha_override is not None:
        model.set_params(alpha=alpha_override)       # twin execution: the documented default passed explicitly
    cur_cfg["params"]["alpha"] = model.get_params()["alpha"]
    out, exc = None, None
    with quiet() as q:
        try:
            out = model.path(X, A, **args)
        except (SimFault, SimBudget):
            raise
        except Exception as e:
            if is_harness_frame(e):
                raise
            exc = e
        msgs = q.messages()
    return dict(model=model, X=X, A=A, out=out, exc=exc, msgs=msgs, pm=pm, mlp=mlp, cur_cfg=cur_cfg)


def same_arrays(a, b):
    return len(a) == len(b) and all(np.shape(x) == np.shape(y) and np.array_equal(x, y, equal_nan=True) for x, y in zip(a, b))


def same_floats(a, b):
    return len(a) == len(b) and all((x == y) or (np.isnan(x) and np.isnan(y)) for x, y in zip(a, b))


def execute(record):
    res = Result()
    log = EventLog()
    cfg = record["config"]
    faults = record.get("faults", {})
    args = dict(record["ops"][-1]["args"])
    prefix = record["ops"][:-1]
    import random
    rng = random.Random(record.get("run_seed", 0) ^ 0xC07)
    V = res.violate
    try:
        world = World(log, res, rng)
        world.val_budget = 9000
        world.step_budget = 400000
        world.opt_mode = faults.get("opt", "real")
        world.teleport_sigma = faults.get("teleport_sigma", 0.0)
        world.teleport_rs = np.random.RandomState(faults.get("teleport_seed", 0))
        if faults.get("kind") == "gemini_nan":
            world.gemini_fault = {"kind": "nan", "at": faults.get("nan_at", 10)}
        d = cfg["d"]
        user_alpha = cfg["params"]["alpha"]
        dyn = bool(cfg["params"].get("dynamic", False))
        precomputed = make_affinity(cfg, make_data(cfg)) is not None
        with world:
            log.emit("OP", op="path", phase="begin")
            try:
                r = run_path(cfg, args, faults, log, res, world, prefix)
            except SimBudget as e:
                V("C07:budget", {"what": str(e), "alpha": user_alpha, "args": args})
                r = None
            if r is not None:
                log.emit("OP", op="path", phase="end" if r["exc"] is None else "raised")
            if r is not None and r["exc"] is not None:
                e = r["exc"]
                model = r["model"]
                empty = dyn and not precomputed and hasattr(model, "get_selection") and (hasattr(model, "W_") or hasattr(model, "W_skip_")) \
                    and len(model.get_selection()) == 0
                site = exc_site(e)
                cls = f"C07:raised:{type(e).__name__}@{site}" + (":dynamic_empty_selection" if empty else "")
                V(cls, {"msg": str(e)[:200], "args": args})
            elif r is not None:
                cc = r["cur_cfg"]          # hyper-parameters after the prefix (set_params may have changed alpha, dynamic...)
                user_alpha = cc["params"]["alpha"]
                dyn = bool(cc["params"].get("dynamic", False))
                judge(res, cc, args, faults, r, user_alpha, d, dyn, precomputed)
                # ---- out-of-range arguments: twin execution with the documented default passed explicitly
                twin_args, twin_cfg, replaced = dict(args), copy.deepcopy(cfg), []
                if args["alpha_multiplier"] <= 1:
                    twin_args["alpha_multiplier"] = DEFAULTS["alpha_multiplier"]; replaced.append("alpha_multiplier")
                if not (0 <= args["keep_threshold"] <= 1):
                    twin_args["keep_threshold"] = DEFAULTS["keep_threshold"]; replaced.append("keep_threshold")
                if args["min_features"] <= 0:
                    twin_args["min_features"] = DEFAULTS["min_features"]; replaced.append("min_features")
                alpha_override = None
                if user_alpha == 0:
                    alpha_override = DEFAULT_ALPHA; replaced.append("alpha")
                if replaced:
                    keyword = {"alpha_multiplier": "multiplier", "keep_threshold": "threshold", "min_features": "min_features", "alpha": "alpha"}
                    low = [m.lower() for m in r["msgs"]]
                    for name in replaced:
                        if not any(keyword[name] in m for m in low):
                            V("C07:no_warning:" + name, {"args": args, "warnings": r["msgs"][:4]})
                    saved = world.gemini_fault      # the twin lives through the same faults: both executions run one program
                    try:
                        t = run_path(twin_cfg, twin_args, faults, log, res, world, prefix, alpha_override)
                    except SimBudget as e:
                        t = None
                        res.probe("twin_budget_exhausted")
                    world.gemini_fault = saved
                    if t is not None and t["exc"] is None:
                        bw, ge, pe, al, nf = r["out"]
                        bw2, ge2, pe2, al2, nf2 = t["out"]
                        ok = same_arrays(bw, bw2) and same_floats(ge, ge2) and same_floats(pe, pe2) and same_floats(al, al2) \
                            and list(nf) == list(nf2) and same_arrays(r["model"]._get_weights(), t["model"]._get_weights())
                        if not ok:
                            V("C07:default_mismatch:" + "+".join(replaced), {"args": args, "lens": [len(al), len(al2)],
                                                                         "alphas": [list(al[:3]), list(al2[:3])]})
                        res.probe("twin_runs_compared")
                    elif t is not None:
                        res.probe("twin_raised:" + type(t["exc"]).__name__)
        if log.counts.get("VAL_SCORE", 0) == 0 and not res.violations:
            res.probe("seam_silent_in_run")   # decided over the whole batch by the runner (KEY_EVENT)
    except HarnessError as e:
        res.harness_error = "HarnessError: " + str(e)
    a = args
    argcls = ("m<=1" if a["alpha_multiplier"] <= 1 else "m>1", "mf<=0" if a["min_features"] <= 0 else ("mf>=d" if a["min_features"] >= cfg["d"] else "mf"),
              "keep_out" if not (0 <= a["keep_threshold"] <= 1) else "keep_in", a["restore_best_weights"], a["max_patience"])
    res.signature = config_signature(cfg) + "|" + "|".join(str(v) for v in argcls) + "|" + faults.get("kind", "none") + "|" + \
        str(min(6, res.probes.get("recorded_steps", 0)))
    res.digest = log.digest()
    res.events = dict(log.counts)
    return res


def judge(res, cfg, args, faults, r, user_alpha, d, dyn, precomputed):
    V = res.violate
    model, pm, mlp = r["model"], r["pm"], r["mlp"]
    best_w, geminis, pens, alphas, nfeat = r["out"]
    msgs = [m.lower() for m in r["msgs"]]
    mult = args["alpha_multiplier"] if args["alpha_multiplier"] > 1 else DEFAULTS["alpha_multiplier"]
    keep = args["keep_threshold"] if 0 <= args["keep_threshold"] <= 1 else DEFAULTS["keep_threshold"]
    minf = args["min_features"] if args["min_features"] > 0 else DEFAULTS["min_features"]
    alpha0 = user_alpha if user_alpha > 0 else DEFAULT_ALPHA
    if not pm.events:
        raise HarnessError("no validation event recorded")
    init, steps, aborted = pm.steps()
    for e in pm.events:
        Wsel = e["weights"][2 if pm.mlp else 0]
        amax = np.abs(Wsel).max(axis=1) if Wsel.size else np.zeros(0)
        if np.any((amax > 0) & (amax < 1e-150)):
            # the norm of such a row underflows to 0 although the row is not zero: the number of selected features is not
            # decidable in floating point (rows without gradient shrunk geometrically for hundreds of steps); not judged
            res.probe("runs_with_underflowing_rows_not_judged")
            return
    T = len(steps)
    res.probe("recorded_steps", T)
    if T >= 2:
        res.nontrivial = True
    # ---- four histories of equal length = number of completed steps
    lens = [len(geminis), len(pens), len(alphas), len(nfeat)]
    if len(set(lens)) != 1 or lens[0] != T:
        V("C07:lengths", {"lengths": lens, "completed_steps": T, "aborted": aborted})
        return
    # ---- alpha schedule
    if T:
        if alphas[0] != alpha0:
            V("C07:alpha_start", {"alphas0": float(alphas[0]), "model_alpha": alpha0})
        for t in range(T - 1):
            want = alphas[t] * mult
            if abs(alphas[t + 1] - want) > 1e-12 * abs(want):
                V("C07:alpha_ratio", {"t": t, "alphas": [float(alphas[t]), float(alphas[t + 1])], "multiplier": mult})
                break
        for t, st in enumerate(steps):
            if abs(st["alpha"] - alphas[t]) > 1e-12 * abs(alphas[t]):
                V("C07:record:alpha_vs_model", {"t": t, "recorded": float(alphas[t]), "model_alpha_during_step": st["alpha"]})
                break
    # ---- per-step records
    for t, st in enumerate(steps):
        if int(nfeat[t]) != st["nsel"]:
            V("C07:record:n_features", {"t": t, "recorded": int(nfeat[t]), "model": st["nsel"]})
            break
        if abs(float(pens[t]) - st["pen"]) > 1e-12 * max(1.0, abs(st["pen"])):
            V("C07:record:penalty", {"t": t, "recorded": float(pens[t]), "model": st["pen"]})
            break
        if not (abs(float(geminis[t]) - st["score"]) <= 1e-12 * max(1.0, abs(st["score"]))):
            V("C07:record:gemini", {"t": t, "recorded": float(geminis[t]), "model": st["score"]})
            break
    # ---- stopping
    last_n = steps[-1]["nsel"] if T else init["nsel"]
    if not aborted and last_n > minf:
        V("C07:last_count", {"last_count": last_n, "min_features": minf, "steps": T})
    if aborted:
        res.probe("nan_aborts")
        if not any("nan" in m for m in msgs):
            V("C07:nan_abort:no_warning", {"warnings": r["msgs"][:3]})
    if T and any(steps[t]["nsel"] - steps[t + 1]["nsel"] > 1 for t in range(T - 1)):
        res.probe("paths_losing_several_features_in_a_step")
    # ---- best weights rule
    best, bw, bidx = init["score"], init["weights"], -1
    for t, st in enumerate(steps):
        if st["score"] >= best and st["nsel"] == d:
            best = st["score"]
        if st["score"] >= keep * best:
            bw, bidx = st["weights"], t
    if not same_arrays(best_w, bw):
        alias = same_arrays(best_w, pm.events[-1]["weights"])
        V("C07:best_weights" + (":aliases_final_model" if alias and bidx != T - 1 else ""),
          {"expected_step": bidx, "steps": T, "keep": keep, "scores": [s["score"] for s in steps][:8], "init_score": init["score"]})
    if bidx >= 0 and steps[bidx]["nsel"] < d:
        res.probe("best_weights_updated_after_all_features_phase")
    res.state_keys.add(f"{T}|{[s['nsel'] for s in steps][:8]}|{bidx}|{'nan' if aborted else 'ok'}")
    # ---- final state of the estimator
    final = model._get_weights()
    last_snapshot = pm.events[-1]["weights"]
    if args["restore_best_weights"] and not dyn:
        if not same_arrays(final, best_w):
            V("C07:restore", {"what": "estimator weights differ from the returned best weights"})
        else:
            sel = np.asarray(model.get_selection())
            Wb = best_w[2] if mlp else best_w[0]
            if not np.array_equal(np.sort(sel), np.where(np.any(Wb != 0, axis=1))[0]):
                V("C07:restore", {"what": "get_selection disagrees with the restored weights"})
        res.probe("restores_checked")
    else:
        if not same_arrays(final, last_snapshot):
            V("C07:final_model", {"what": "without restoration the estimator must hold the weights of the end of the path",
                                  "dynamic": dyn, "restore": args["restore_best_weights"]})
        if args["restore_best_weights"] and dyn:
            res.probe("restore_with_dynamic")
            if not any("restore" in m for m in msgs):
                V("C07:no_warning:restore_with_dynamic", {"warnings": r["msgs"][:3]})
    # best weights must be a copy, not the live arrays
    for bwi, live in zip(best_w, final):
        if bwi is live:
            V("C07:best_weights:aliases_live_arrays", {})
            break
    if args["min_features"] >= d and args["min_features"] > 0:
        res.probe("min_features_ge_d")
        if T != 0:
            V("C07:last_count", {"what": "min_features >= d must perform no path step", "steps": T})
