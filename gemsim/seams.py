"""Simulator-owned seams.  Nothing in /repo is edited: every seam is an instance attribute, a module attribute looked
up at call time, a constructor parameter, or one class-level patch of scikit-learn's BaseOptimizer.update_params that is
active only inside a `World`."""
import os
import sys

import numpy as np

from .core import SimFault, SimBudget, HarnessError, fhex


# --------------------------------------------------------------------------------------------------------------------
# Randomness acting as a scheduler
# --------------------------------------------------------------------------------------------------------------------

SCHED_KINDS = ["identity", "reverse", "rotate", "riffle", "random", "split_pairs", "join_pairs", "sorted_by_first"]


def planned_permutation(kind, n, rng, pairs=(), batch_size=None, faithful=None):
    """A permutation of range(n) of the requested kind.  Every result is a possible outcome of RandomState.permutation,
    so every simulated schedule is a legal one."""
    if kind == "faithful" and faithful is not None:
        return np.asarray(faithful)
    idx = list(range(n))
    if kind == "identity":
        pass
    elif kind == "reverse":
        idx.reverse()
    elif kind == "rotate":
        r = rng.randrange(n) if n else 0
        idx = idx[r:] + idx[:r]
    elif kind == "riffle":
        h = (n + 1) // 2
        a, b = idx[:h], idx[h:]
        idx = [x for pair in zip(a, b + [None]) for x in pair if x is not None]
    elif kind in ("split_pairs", "join_pairs") and pairs and n >= 2:
        rng.shuffle(idx)
        bs = batch_size if batch_size else n
        for (i, j) in pairs:
            # a label below 0 names no sample; the adversarial order nevertheless treats it as numpy indexing would
            # (sample n+i), so that code which lets such a label wrap around meets the two samples in one batch
            i = i + n if -n <= i < 0 else i
            j = j + n if -n <= j < 0 else j
            if not (0 <= i < n and 0 <= j < n) or i == j:
                continue
            pi, pj = idx.index(i), idx.index(j)
            if kind == "join_pairs":
                # move j right after i inside the same batch when possible
                idx.pop(pj)
                pi = idx.index(i)
                pos = pi + 1 if (pi + 1) % bs != 0 or pi + 1 >= len(idx) else pi
                idx.insert(pos, j)
            else:
                if pi // bs == pj // bs and n > bs:
                    # move j to another batch by swapping with an element of a different batch
                    others = [q for q in range(n) if q // bs != pi // bs]
                    q = others[rng.randrange(len(others))]
                    idx[pj], idx[q] = idx[q], idx[pj]
    else:  # random / sorted_by_first fallbacks
        rng.shuffle(idx)
    return np.asarray(idx, dtype=np.int64)


class SimRandomState(np.random.RandomState):
    """A RandomState whose `permutation` (batch order) and `choice` (KAURI feature subsets) are decided by the simulator.

    In *faithful* mode it behaves exactly like the RandomState it wraps and only logs; in *scheduler* mode the wrapped
    generator is still advanced (so all other draws stay aligned) but the returned permutation/subset is the planned
    one."""

    def __init__(self, inner, log, plan=None, rng=None, pairs=(), batch_size=None, subset_mode="faithful", result=None):
        super().__init__(0)
        self._inner = inner
        self._log = log
        self._plan = plan or []        # list of kinds, cycled; empty => faithful
        self._rng = rng
        self._pairs = pairs
        self._bs = batch_size
        self._n_perm = 0
        self._subset_mode = subset_mode
        self._result = result

    def permutation(self, x):
        faithful = self._inner.permutation(x)
        n = x if isinstance(x, (int, np.integer)) else len(x)
        kind = "faithful"
        if self._plan:
            kind = self._plan[self._n_perm % len(self._plan)]
        self._n_perm += 1
        if kind == "faithful" or not isinstance(x, (int, np.integer)):
            out = faithful
        else:
            out = planned_permutation(kind, int(n), self._rng, self._pairs, self._bs)
            if self._result is not None:
                self._result.fault("sched_" + kind)
        self._log.emit("RNG_DRAW", what="permutation", n=int(n), kind=kind, perm=[int(v) for v in out])
        self.last_perm = np.array(out, copy=True)
        return out

    def choice(self, a, size=None, replace=True, p=None):
        faithful = self._inner.choice(a, size=size, replace=replace, p=p)
        out = faithful
        mode = self._subset_mode
        if mode != "faithful" and isinstance(a, (int, np.integer)) and size is not None and not replace:
            d, k = int(a), int(size)
            if mode == "first":
                out = np.arange(k)
            elif mode == "last":
                out = np.arange(d - k, d)
            elif mode == "adversary":
                pool = list(range(d))
                self._rng.shuffle(pool)
                out = np.asarray(pool[:k])
            if self._result is not None:
                self._result.fault("subset_" + mode)
        self._log.emit("RNG_DRAW", what="choice", a=int(a) if isinstance(a, (int, np.integer)) else -1,
                       subset=[int(v) for v in np.atleast_1d(out)])
        self.last_choice = (a, size, np.array(out, copy=True))
        return out

    # every other draw is delegated to the wrapped generator (weight initialisation etc.)
    def uniform(self, *a, **k):
        return self._inner.uniform(*a, **k)

    def normal(self, *a, **k):
        return self._inner.normal(*a, **k)

    def randint(self, *a, **k):
        return self._inner.randint(*a, **k)

    def rand(self, *a, **k):
        return self._inner.rand(*a, **k)

    def shuffle(self, *a, **k):
        return self._inner.shuffle(*a, **k)


# --------------------------------------------------------------------------------------------------------------------
# GEMINI wrapper
# --------------------------------------------------------------------------------------------------------------------

def make_sim_gemini(real, world):
    """A `_GEMINI` subclass instance wrapping `real`: logs every compute_affinity / evaluate; injects faults."""
    from gemclus.gemini._base_loss import _GEMINI

    class SimGemini(_GEMINI):
        def __init__(self):
            super().__init__(real.epsilon)
            self.real = real
            for k in ("ovo", "kernel", "metric", "kernel_params", "metric_params"):
                if hasattr(real, k):
                    setattr(self, k, getattr(real, k))

        def compute_affinity(self, X, y=None):
            out = self.real.compute_affinity(X, y)
            world.on_affinity(X, y, out)
            return out

        def evaluate(self, y_pred, affinity, return_grad=False):
            world.n_eval += 1
            k = world.n_eval
            f = world.gemini_fault
            if f is not None and f["kind"] == "raise" and k == f["at"]:
                world.log.emit("FAULT", kind="gemini_raise", at=k)
                world.result.fault("gemini_raise")
                raise SimFault("gemini_raise")
            out = self.real.evaluate(y_pred, affinity, return_grad)
            if f is not None and f["kind"] == "nan" and k >= f["at"]:
                if k == f["at"]:
                    world.log.emit("FAULT", kind="gemini_nan", at=k)
                    world.result.fault("gemini_nan")
                out = (np.float64("nan"), out[1]) if return_grad else np.float64("nan")
            world.on_evaluate(y_pred, affinity, return_grad, out)      # observers see what the library sees
            return out

    return SimGemini()


# --------------------------------------------------------------------------------------------------------------------
# The world: global patches + per-model spies
# --------------------------------------------------------------------------------------------------------------------

class World:
    """Owns the event log, the patches and the fault plan of one simulated run."""

    def __init__(self, log, result, rng=None):
        self.log = log
        self.result = result
        self.rng = rng
        # optimiser
        self.opt_mode = "real"         # real | identity | scaled | teleport
        self.opt_scale = 1.0
        self.teleport_sigma = 0.0
        self.teleport_rs = None
        self.opt_raise_at = None       # raise SimFault at the k-th optimiser step of the current op
        self.n_steps = 0               # optimiser steps in the current op
        self.total_steps = 0
        self.step_budget = None
        self.step_hooks = []           # f(world, optimizer, params, grads) before the update
        self.post_step_hooks = []      # f(world, optimizer, params) after the update
        # gemini
        self.gemini_fault = None
        self.n_eval = 0
        self.affinity_calls = []       # (in_val, rows, cols, output)
        self.eval_hooks = []
        self.affinity_hooks = []
        self.in_val_score = 0
        # val score / kauri interposers
        self.val_hooks = []
        self.val_budget = None
        self.n_val = 0
        self.split_hook = None
        self._saved = []

    # ---- callbacks from SimGemini
    def on_affinity(self, X, y, out):
        rows = int(len(X))
        cols = int(X.shape[1]) if getattr(X, "ndim", 1) == 2 else -1
        self.affinity_calls.append((self.in_val_score > 0, rows, cols, out))
        self.log.emit("AFFINITY", rows=rows, cols=cols, val=self.in_val_score > 0, given=y is not None)
        for h in self.affinity_hooks:
            h(self, X, y, out)

    def on_evaluate(self, y_pred, affinity, return_grad, out):
        score = out[0] if return_grad else out
        self.log.emit("GEMINI_EVAL", rows=int(y_pred.shape[0]), grad=bool(return_grad), val=self.in_val_score > 0,
                      score=fhex(np.asarray(score).item()))
        for h in self.eval_hooks:
            h(self, y_pred, affinity, return_grad, out)

    def last_train_affinity(self):
        for in_val, rows, cols, out in reversed(self.affinity_calls):
            if not in_val:
                return out
        return None

    # ---- patches
    def __enter__(self):
        from sklearn.neural_network import _stochastic_optimizers as so
        import gemclus.sparse._base_sparse as bs
        import gemclus.tree.kauri as kauri
        world = self
        orig_update = so.BaseOptimizer.update_params
        orig_val = bs.compute_val_score
        orig_split = kauri.find_best_split
        self._saved = [(so.BaseOptimizer, "update_params", orig_update), (bs, "compute_val_score", orig_val),
                       (kauri, "find_best_split", orig_split)]
        self.real_update = orig_update
        self.real_val = orig_val
        self.real_split = orig_split

        def update_params(opt, params, grads):
            world.n_steps += 1
            world.total_steps += 1
            world.log.emit("STEP", k=world.n_steps, mode=world.opt_mode,
                           g=[fhex(float(np.abs(np.asarray(g)).sum())) for g in grads])
            if world.step_budget is not None and world.total_steps > world.step_budget:
                raise SimBudget("optimiser step budget")
            for h in world.step_hooks:
                h(world, opt, params, grads)
            if world.opt_raise_at is not None and world.n_steps == world.opt_raise_at:
                world.log.emit("FAULT", kind="opt_raise", at=world.n_steps)
                world.result.fault("opt_raise")
                raise SimFault("opt_raise")
            mode = world.opt_mode
            if mode == "real":
                orig_update(opt, params, grads)
            elif mode == "identity":
                opt._get_updates(grads)  # moments / learning rate still evolve; the weights stay
                world.result.fault("opt_identity")
            elif mode == "scaled":
                updates = opt._get_updates(grads)
                for p, u in zip(params, updates):
                    p += world.opt_scale * u
                world.result.fault("opt_scaled")
            elif mode == "teleport":
                orig_update(opt, params, grads)
                for p in params:
                    p += world.teleport_sigma * world.teleport_rs.normal(size=p.shape)
                world.result.fault("opt_teleport")
            else:
                raise HarnessError("unknown optimiser mode " + str(mode))
            for h in world.post_step_hooks:
                h(world, opt, params)

        def compute_val_score(clf, X, y, batch_size, gemini_objective):
            world.n_val += 1
            if world.val_budget is not None and world.n_val > world.val_budget:
                raise SimBudget("validation-score budget (path does not terminate)")
            world.in_val_score += 1
            try:
                out = orig_val(clf, X, y, batch_size, gemini_objective)
            finally:
                world.in_val_score -= 1
            world.log.emit("VAL_SCORE", k=world.n_val, alpha=fhex(clf.alpha), score=fhex(np.asarray(out[0]).item()),
                           pen=fhex(np.asarray(out[1]).item()))
            for h in world.val_hooks:
                h(world, clf, X, y, batch_size, out)
            return out

        def find_best_split(*args):
            if world.split_hook is None:
                return orig_split(*args)
            return world.split_hook(world, orig_split, *args)

        so.BaseOptimizer.update_params = update_params
        bs.compute_val_score = compute_val_score
        kauri.find_best_split = find_best_split
        return self

    def __exit__(self, *exc):
        for obj, name, val in self._saved:
            setattr(obj, name, val)
        self._saved = []
        return False

    def begin_op(self):
        self.n_steps = 0


class BatchSpy:
    """Outermost wrapper of an instance's `_batchify`: owns the schedule and records what `fit` receives.

    It proxies attribute access to the wrapped callable so that mlcl's `_batchify.indices` keeps working."""

    def __init__(self, harness, inner):
        object.__setattr__(self, "_h", harness)
        object.__setattr__(self, "_inner", inner)

    def __call__(self, X, affinity_matrix=None, random_state=None):
        h = self._h
        h.epoch += 1
        h.cur_full = X
        h.cur_affinity_full = affinity_matrix
        h.batch_in_epoch = 0
        rs = random_state
        if isinstance(random_state, np.random.RandomState) and not isinstance(random_state, SimRandomState):
            key = id(random_state)
            if key not in h._rs_wrappers:
                h._rs_wrappers[key] = (random_state, SimRandomState(random_state, h.world.log, h.sched_plan, h.rng,
                                                                    h.pairs, h.batch_size, result=h.world.result))
            rs = h._rs_wrappers[key][1]
        h.world.log.emit("EPOCH", epoch=h.epoch, n=int(len(X)))
        for cb in h.epoch_hooks:
            cb(h, X, affinity_matrix)
        if isinstance(rs, SimRandomState):
            rs.last_perm = None
        h.epoch_batches = {}
        offset = 0
        for Xb, Ab in self._inner(X, affinity_matrix, rs):
            h.batch_in_epoch += 1
            h.cur_batch = (Xb, Ab)
            # who is in the batch?  First guess: the next slice of the permutation the simulator handed out (it decides
            # between samples with IDENTICAL rows); accepted only if the rows really are those samples' rows.  Otherwise by
            # value (any other way of cutting a permutation into batches is legal too).
            ids = None
            perm = getattr(rs, "last_perm", None) if isinstance(rs, SimRandomState) else None
            if perm is not None and offset + len(Xb) <= len(perm):
                guess = [int(v) for v in perm[offset:offset + len(Xb)]]
                if np.array_equal(np.asarray(X)[guess], np.asarray(Xb)):
                    ids = guess
            elif perm is None and len(Xb) == len(X) and np.array_equal(np.asarray(X), np.asarray(Xb)):
                ids = list(range(len(X)))
            offset += len(Xb)
            h.cur_ids = ids if ids is not None else h.identify(X, Xb)
            # remembered by OBJECT: whoever later computes on this very batch object (a training loop may legitimately
            # or mistakenly consume the generator ahead of time) can be told which samples it holds
            h.epoch_batches[id(Xb)] = (Xb, Ab, h.cur_ids)
            h.world.log.emit("BATCH", epoch=h.epoch, b=h.batch_in_epoch, ids=h.cur_ids,
                             aff=None if Ab is None else list(Ab.shape))
            for cb in h.batch_hooks:
                cb(h, X, affinity_matrix, Xb, Ab, h.cur_ids)
            yield Xb, Ab
        for cb in h.epoch_end_hooks:
            cb(h)

    def __getattr__(self, k):
        return getattr(object.__getattribute__(self, "_inner"), k)

    def __setattr__(self, k, v):
        setattr(object.__getattribute__(self, "_inner"), k, v)


class ModelHarness:
    """All instance-level spies of one estimator object."""

    def __init__(self, world, model, family, sched_plan=None, pairs=(), wrap_gemini=True, rng=None):
        self.world = world
        self.rng = rng if rng is not None else world.rng
        self.model = model
        self.family = family
        self.sched_plan = sched_plan or []
        self.pairs = pairs
        self.batch_size = getattr(model, "batch_size", None)
        self.epoch = 0
        self.batch_in_epoch = 0
        self.cur_full = None
        self.cur_affinity_full = None
        self.cur_batch = None
        self.cur_ids = None
        self.epoch_hooks = []
        self.batch_hooks = []
        self.epoch_end_hooks = []
        self._rs_wrappers = {}
        self.sim_gemini = None
        if wrap_gemini:
            self.wrap_gemini()

    def wrap_gemini(self):
        model = self.model
        orig = model.get_gemini
        self.orig_get_gemini = orig
        world = self.world
        harness = self

        def get_gemini():
            g = make_sim_gemini(orig(), world)
            harness.sim_gemini = g
            return g

        model.get_gemini = get_gemini

    def wrap_batchify(self):
        self.model._batchify = BatchSpy(self, self.model._batchify)
        self.epoch_batches = {}
        self.last_infer_X = None
        inner_infer = self.model._infer
        harness = self

        def infer_spy(X, retain=True):
            if retain:
                harness.last_infer_X = X       # the batch object the training loop is working on right now
            return inner_infer(X, retain) if retain is not True else inner_infer(X)
        self.model._infer = infer_spy

    def resolve(self, Xb=None):
        """(X_batch, affinity_batch, true ids) of the batch a gradient is being computed on: by the identity of the batch
        object handed to _compute_grads / last forwarded through _infer; the generator's current batch otherwise."""
        key = Xb if Xb is not None else self.last_infer_X
        if key is not None and id(key) in self.epoch_batches and self.epoch_batches[id(key)][0] is key:
            return self.epoch_batches[id(key)]
        if key is not None and self.cur_full is not None and getattr(key, "ndim", 0) == 2 and np.ndim(self.cur_full) == 2 \
                and key.shape[1:] == np.shape(self.cur_full)[1:] and not (self.cur_batch is not None and key is self.cur_batch[0]):
            # a batch that never came out of the (spied) _batchify: say who is in it by value
            if key is self.cur_full or (key.shape == np.shape(self.cur_full) and np.array_equal(key, self.cur_full)):
                ids = list(range(len(key)))
            else:
                ids = self.identify(self.cur_full, key)
            aff = None
            if self.cur_affinity_full is not None and not any(i < 0 for i in ids):
                aff = np.asarray(self.cur_affinity_full)[np.ix_(ids, ids)]
            return (key, aff, ids)
        return (self.cur_batch[0], self.cur_batch[1], self.cur_ids)

    @staticmethod
    def identify(X_full, X_batch):
        """True sample ids of the rows of a batch, by exact row match against the full array handed to _batchify."""
        X_full = np.asarray(X_full)
        X_batch = np.asarray(X_batch)
        if X_full.ndim == 1:
            X_full = X_full.reshape(-1, 1)
            X_batch = X_batch.reshape(-1, 1)
        ids = []
        for row in X_batch:
            m = np.where((X_full == row).all(axis=1))[0]
            ids.append(int(m[0]) if len(m) == 1 else (-1 if len(m) == 0 else -2 - int(m[0])))
        return ids


class LineCrash:
    """Crash at an ARBITRARY point of a library call: raises SimFault when the k-th source line of the library (files under
    gemclus/, tests excluded; the compiled extension has no lines) is about to execute - what a KeyboardInterrupt or a
    MemoryError does to a running fit.  Only durable state survives: whatever the call had already written to the object.
    The count of executed lines up to a point is a function of the record alone, so the crash point replays exactly."""

    def __init__(self, at, log=None, result=None):
        import gemclus
        self.root = os.path.dirname(os.path.realpath(gemclus.__file__)) + os.sep
        self.tests = os.sep + "tests" + os.sep
        self.at = int(at)
        self.count = 0
        self.fired = None
        self.log = log
        self.result = result
        self._known = {}

    def _wanted(self, filename):
        w = self._known.get(filename)
        if w is None:
            real = os.path.realpath(filename)
            w = self._known[filename] = real.startswith(self.root) and self.tests not in real
        return w

    def _global(self, frame, event, arg):
        if self.fired is not None or not self._wanted(frame.f_code.co_filename):
            return None
        return self._local

    def _local(self, frame, event, arg):
        if event == "line" and self.fired is None:
            self.count += 1
            if self.count >= self.at:
                self.fired = (os.path.basename(frame.f_code.co_filename), frame.f_code.co_name, frame.f_lineno)
                if self.log is not None:
                    self.log.emit("FAULT", kind="line_crash", at=self.at, function=frame.f_code.co_name)
                if self.result is not None:
                    self.result.fault("line_crash")
                raise SimFault("line_crash")
        return self._local

    def __enter__(self):
        self.prev = sys.gettrace()
        sys.settrace(self._global)
        return self

    def __exit__(self, *exc):
        sys.settrace(self.prev)
        return False


class TwoTasks:
    """Seeded scheduler of TWO tasks (real threads, baton passing: exactly one runs at any time).

    Task 0 runs in the calling thread, task 1 in a helper thread.  Control changes hands only at the simulator's seams
    (`yield_point`, called from the optimiser-step and GEMINI-evaluation hooks of the World), and the seeded PRNG decides at
    every seam who runs next - so one record is one exactly repeatable interleaving of the two library calls."""

    def __init__(self, rng, log=None, p_switch=0.5):
        import threading
        self._threading = threading
        self.cv = threading.Condition()
        self.turn = 0
        self.alive = {0: True, 1: True}
        self.ident = {}
        self.rng = rng
        self.log = log
        self.p_switch = p_switch
        self.switches = 0
        self.error = {}

    def me(self):
        return self.ident.get(self._threading.get_ident())

    def yield_point(self, *_):
        me = self.me()
        if me is None:
            return
        with self.cv:
            other = 1 - me
            if self.alive[other] and self.rng.random() < self.p_switch:
                self.switches += 1
                if self.log is not None:
                    self.log.emit("SCHED", to=other, k=self.switches)
                self.turn = other
                self.cv.notify_all()
                while self.turn != me:
                    self.cv.wait()

    def _finish(self, me):
        with self.cv:
            self.alive[me] = False
            self.turn = 1 - me
            self.cv.notify_all()

    def _body(self, me, fn):
        self.ident[self._threading.get_ident()] = me
        with self.cv:
            while self.turn != me:
                self.cv.wait()
        try:
            fn()
        except BaseException as e:          # re-raised (task 0) or reported (task 1) by run()
            self.error[me] = e
        finally:
            self._finish(me)

    def run(self, fn0, fn1):
        """Runs fn0 (this thread) and fn1 (helper thread) interleaved; returns after both ended.  An exception of task 0 is
        re-raised; one of task 1 is returned."""
        t = self._threading.Thread(target=self._body, args=(1, fn1), daemon=True)
        t.start()
        self._body(0, fn0)
        t.join(120)
        if t.is_alive():
            raise HarnessError("second task did not end")
        if 0 in self.error:
            raise self.error[0]
        return self.error.get(1)
