"""Sensitivity catalogue: small source mutants per claimed property (string edits applied to a temp copy of
/repo/gemclus only — never to /repo)."""
CATALOGUE = {
    "c10_affinity_rows_only": dict(property="C10", edits=[("gemclus/_base_gemini.py",
        "affinity_batch = affinity_matrix[batch_indices][:, batch_indices]", "affinity_batch = affinity_matrix[batch_indices][:, :len(batch_indices)]")]),
    "c10_drop_last_partial_batch": dict(property="C10", edits=[("gemclus/_base_gemini.py",
        "        while j < len(X):\n            batch_indices", "        while j + batch_size <= len(X) or j == 0:\n            batch_indices")]),
    "c10_mlcl_positions_not_ids": dict(property="C10", edits=[("gemclus/mlcl.py",
        "disguise_batch.indices = subset.tolist()", "disguise_batch.indices = sorted(subset.tolist())")]),
    "c10_val_block_rows_only": dict(property="C10", edits=[("gemclus/sparse/_base_sparse.py",
        "affinity = y[j:j+batch_size][:,j:j+batch_size]", "affinity = y[j:j+batch_size][:,:len(X_batch)]")]),
    "c10_extra_epoch": dict(property="C10", edits=[("gemclus/_base_gemini.py",
        "for i in range(self.max_iter):", "for i in range(self.max_iter + (1 if self.batch_size == 3 else 0)):")]),
}
