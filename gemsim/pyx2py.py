"""De-cythoniser for gemclus/tree/_utils.pyx.

Cython is not installed in this sandbox, so the compiled extension cannot be regenerated from the working tree.  To still
"rebuild from /repo's current working tree", this module turns the .pyx SOURCE into plain Python (types stripped, `cdef`
declarations dropped) and executes it.  The file uses a small, regular subset of Cython (typed signatures, `cdef` local
declarations, one `cdef class`, typed memoryviews); under Cython 3 / language_level 3 its arithmetic has Python semantics
(`/` on C integers is true division), so the Python reading computes the same values as the compiled module up to
floating-point reassociation.  If the source uses something this translator does not understand, loading fails and the
caller falls back to the compiled module alone (reported in the evidence, never an alarm)."""
import hashlib
import os
import re

_CACHE = {}

_TYPE_WORDS = ("np.float64_t", "np.int64_t", "np.intp_t", "Py_ssize_t", "bint", "int", "long", "double", "float",
               "object", "Split", "np.ndarray", "size_t", "unsigned")


def _split_top(s, sep=","):
    out, depth, cur = [], 0, ""
    for ch in s:
        if ch in "([{":
            depth += 1
        elif ch in ")]}":
            depth -= 1
        if ch == sep and depth == 0:
            out.append(cur)
            cur = ""
        else:
            cur += ch
    if cur.strip():
        out.append(cur)
    return out


def _strip_arg(arg):
    """`np.float64_t[:,:] kernel` -> `kernel`;  `np.int64_t[:] b=None` -> `b=None`;  `self` -> `self`."""
    arg = arg.strip()
    if not arg:
        return arg
    default = ""
    # split a default value at top level
    parts = _split_top(arg, "=")
    if len(parts) == 2:
        arg, default = parts[0].strip(), "=" + parts[1].strip()
    # remove bracketed type parameters
    while True:
        new = re.sub(r"\[[^\[\]]*\]", " ", arg)
        if new == arg:
            break
        arg = new
    toks = arg.split()
    name = toks[-1] if toks else ""
    if not re.fullmatch(r"[A-Za-z_][A-Za-z0-9_]*", name):
        raise ValueError("cannot parse argument: " + arg)
    return name + default


def _strip_signature(sig):
    """Turn a (possibly multi-line, joined) cdef/cpdef/def signature into a Python def line (without trailing colon)."""
    m = re.match(r"^(\s*)(cdef|cpdef|def)\s+(.*?)\((.*)\)\s*(->\s*[^:]+)?\s*:\s*$", sig, re.S)
    if not m:
        raise ValueError("cannot parse signature: " + sig[:80])
    indent, _, head, args, _ = m.groups()
    name = head.split()[-1]
    args = ", ".join(_strip_arg(a) for a in _split_top(args.replace("\n", " ")))
    return f"{indent}def {name}({args}):"


def translate(src):
    lines = src.split("\n")
    out = []
    i = 0
    while i < len(lines):
        ln = lines[i]
        st = ln.strip()
        if st.startswith("cimport ") or st == "np.import_array()":
            i += 1
            continue
        m = re.match(r"^(\s*)cdef\s+class\s+(\w+)\s*:\s*$", ln)
        if m:
            out.append(f"{m.group(1)}class {m.group(2)}:")
            i += 1
            continue
        if re.match(r"^\s*(cdef|cpdef|def)\s+[^=(]*\(", ln) and not re.match(r"^\s*cdef\s+(readonly|public)\b", ln):
            # a function signature, possibly spanning several lines: join until the parenthesis closes and a ':' ends it
            sig = ln
            depth = ln.count("(") - ln.count(")")
            while depth > 0 or not sig.rstrip().endswith(":"):
                i += 1
                sig += "\n" + lines[i]
                depth += lines[i].count("(") - lines[i].count(")")
            is_def = bool(re.match(r"^\s*def\s", ln))
            looks_typed = any(t in sig for t in _TYPE_WORDS)
            if is_def and not looks_typed:
                out.extend(sig.split("\n"))
            else:
                out.append(_strip_signature(sig))
            i += 1
            continue
        m = re.match(r"^(\s*)cdef\s+(.*)$", ln)
        if m:
            indent, rest = m.groups()
            if rest.startswith("readonly ") or rest.startswith("public "):
                out.append(f"{indent}pass")
                i += 1
                continue
            if "=" in _split_top(rest, "#")[0] and len(_split_top(rest, "=")) >= 2 and "," not in _split_top(rest, "=")[0]:
                # a declaration with an initialiser: `cdef Split best = Split(...)`, `cdef Py_ssize_t k = 0`
                lhs, rhs = rest.split("=", 1)
                name = re.sub(r"\[[^\[\]]*\]", " ", lhs).split()[-1]
                out.append(f"{indent}{name} = {rhs.strip()}")
            else:
                out.append(f"{indent}pass")
            i += 1
            continue
        out.append(ln)
        i += 1
    return "\n".join(out)


def load(repo=None):
    """Returns (namespace dict or None, info dict).  Cached per file content."""
    repo = repo or os.environ.get("GEMSIM_REPO", "/repo")
    path = os.path.join(repo, "gemclus", "tree", "_utils.pyx")
    info = {"path": path}
    try:
        src = open(path).read()
    except OSError as e:
        info["error"] = f"{type(e).__name__}: {e}"
        return None, info
    key = hashlib.sha256(src.encode()).hexdigest()
    info["pyx_sha256"] = key
    if key in _CACHE:
        return _CACHE[key]
    try:
        py = translate(src)
        ns = {"__name__": "gemsim_pyx_utils"}
        import warnings
        with warnings.catch_warnings():
            warnings.simplefilter("ignore")
            code = compile(py, path + " (de-cythonised)", "exec")
        exec(code, ns)
        for need in ("find_best_split", "gemini_objective", "Split"):
            if need not in ns:
                raise ValueError("missing " + need)
        info["ok"] = True
        _CACHE[key] = (ns, info)
    except Exception as e:
        info["ok"] = False
        info["error"] = f"{type(e).__name__}: {e}"
        _CACHE[key] = (None, info)
    return _CACHE[key]
