"""Clean room: executions in a process whose library state is PRISTINE.

A reference execution run in the same process as the object under test shares every module-level and class-level
state of the library with it (caches, shared random generators, class attributes), so a leak through such state can
affect both sides alike and cancel out of the comparison.  The clean room is a helper process forked from a worker
BEFORE the worker executes its first run (the library is imported, nothing has been fitted); for every request it forks
a child, the child computes and exits.  Every request therefore starts from the same pristine state, at the price of a
fork (milliseconds) instead of a fresh interpreter (a second)."""
import atexit
import os
import pickle
import select
import struct

_ROOM = None


def _send(fd, obj):
    data = pickle.dumps(obj)
    os.write(fd, struct.pack("<Q", len(data)))
    off = 0
    while off < len(data):
        off += os.write(fd, data[off:off + 65536])


def _read_exact(fd, n, timeout=None):
    buf = b""
    while len(buf) < n:
        if timeout is not None:
            r, _, _ = select.select([fd], [], [], timeout)
            if not r:
                raise TimeoutError("clean room timed out")
        chunk = os.read(fd, n - len(buf))
        if not chunk:
            raise EOFError("clean room closed")
        buf += chunk
    return buf


def _recv(fd, timeout=None):
    n = struct.unpack("<Q", _read_exact(fd, 8, timeout))[0]
    return pickle.loads(_read_exact(fd, n, timeout))


class CleanRoom:
    def __init__(self):
        self.req_r, self.req_w = os.pipe()
        self.res_r, self.res_w = os.pipe()
        self.pid = os.fork()
        if self.pid == 0:
            os.close(self.req_w)
            os.close(self.res_r)
            try:
                self._serve()
            finally:
                os._exit(0)
        os.close(self.req_r)
        os.close(self.res_w)
        self.owner = os.getpid()
        self.calls = 0

    def _serve(self):
        while True:
            try:
                req = _recv(self.req_r)
            except (EOFError, OSError):
                return
            if req is None:
                return
            r, w = os.pipe()
            pid = os.fork()
            if pid == 0:
                os.close(r)
                try:
                    mod, fn, payload = req
                    import importlib
                    out = ("ok", getattr(importlib.import_module(mod), fn)(payload))
                except BaseException as e:  # the verdict is the caller's business
                    out = ("err", f"{type(e).__name__}: {e}")
                try:
                    _send(w, out)
                finally:
                    os._exit(0)
            os.close(w)
            try:
                out = _recv(r, timeout=100)
            except Exception as e:
                out = ("err", f"clean-room child failed: {type(e).__name__}: {e}")
                try:
                    os.kill(pid, 9)
                except OSError:
                    pass
            os.close(r)
            try:
                os.waitpid(pid, 0)
            except OSError:
                pass
            _send(self.res_w, out)

    def call(self, module, function, payload):
        if os.getpid() != self.owner:
            raise RuntimeError("clean room used from a process that does not own it")
        self.calls += 1
        _send(self.req_w, (module, function, payload))
        return _recv(self.res_r, timeout=110)

    def close(self):
        if os.getpid() != self.owner:
            return
        try:
            _send(self.req_w, None)
            os.close(self.req_w)
            os.close(self.res_r)
            os.waitpid(self.pid, 0)
        except OSError:
            pass


def install():
    """Create the clean room of THIS process (call it before the process executes any scenario)."""
    global _ROOM
    if _ROOM is not None and _ROOM.owner == os.getpid():
        return _ROOM
    try:
        _ROOM = CleanRoom()
        atexit.register(_ROOM.close)
    except OSError:
        _ROOM = None
    return _ROOM


def get():
    if _ROOM is not None and _ROOM.owner == os.getpid():
        return _ROOM
    return None


def fresh_interpreter_call(module, function, payload, hashseed, timeout=120):
    """Runs module.function(payload) in a NEW interpreter started with another PYTHONHASHSEED (a forked clean room inherits
    the hash salt of its parent, so anything derived from `hash()` of a str / bytes agrees with the parent by construction).
    Returns ("ok", value) or ("err", text)."""
    import subprocess
    import sys
    verif = os.path.dirname(os.path.dirname(os.path.abspath(__file__)))
    repo = os.environ.get("GEMSIM_REPO", "/repo")
    boot = ("import sys, pickle, importlib\n"
            f"sys.path[:0] = [{verif!r}, {repo!r}]\n"
            "mod, fn, payload = pickle.load(sys.stdin.buffer)\n"
            "try:\n"
            "    out = ('ok', getattr(importlib.import_module(mod), fn)(payload))\n"
            "except BaseException as e:\n"
            "    out = ('err', type(e).__name__ + ': ' + str(e))\n"
            "sys.__stdout__.buffer.write(b'@@RESULT@@' + pickle.dumps(out))\n"
            "sys.__stdout__.buffer.flush()\n")
    env = dict(os.environ)
    env["PYTHONHASHSEED"] = str(int(hashseed))
    for k in ("OMP_NUM_THREADS", "OPENBLAS_NUM_THREADS", "MKL_NUM_THREADS"):
        env[k] = "1"
    try:
        p = subprocess.run([sys.executable, "-c", boot], input=pickle.dumps((module, function, payload)), env=env,
                           stdout=subprocess.PIPE, stderr=subprocess.DEVNULL, timeout=timeout)
    except Exception as e:
        return "err", f"fresh interpreter failed: {type(e).__name__}: {e}"
    i = p.stdout.rfind(b"@@RESULT@@")
    if i < 0:
        return "err", f"fresh interpreter gave no result (rc={p.returncode})"
    return pickle.loads(p.stdout[i + 10:])
