"""Simulator core: run-seed derivation, event log with digest, exceptions, small helpers.

Everything a run decides is drawn from ONE `random.Random` seeded with the run seed; the run seed is
H(VERIF_SEED, property, run_index).  Logging never draws from a PRNG and never reads a clock."""
import hashlib
import json
import math
import random

SIM_VERSION = 1


class SimFault(Exception):
    """An injected crash (raised by a simulator-owned component inside a library call)."""


class SimBudget(Exception):
    """A step budget was exhausted: the library call did not terminate within the bound (liveness)."""


class HarnessError(Exception):
    """The simulator itself is inconsistent (missing seam, impossible state).  Never a VIOLATION."""


def derive_seed(verif_seed, prop, index):
    h = hashlib.sha256(f"gemsim/{SIM_VERSION}/{verif_seed}/{prop}/{index}".encode()).digest()
    return int.from_bytes(h[:8], "big")


def make_rng(seed):
    return random.Random(seed)


def fhex(x):
    """Deterministic, lossless text for a float (NaN and inf included)."""
    x = float(x)
    if math.isnan(x):
        return "nan"
    return x.hex()


def arr_fp(a):
    """Fingerprint of an ndarray (shape + dtype + bytes)."""
    import numpy as np
    if a is None:
        return "none"
    a = np.ascontiguousarray(a)
    h = hashlib.sha256()
    h.update(str(a.shape).encode())
    h.update(str(a.dtype).encode())
    h.update(a.tobytes())
    return h.hexdigest()[:16]


class EventLog:
    """Append-only log of (seq, kind, payload); `seq` is the logical clock of the simulation."""

    def __init__(self, keep=200000):
        self.events = []
        self.counts = {}
        self.seq = 0
        self._h = hashlib.sha256()
        self.keep = keep

    def emit(self, kind, /, **payload):
        self.seq += 1
        self.counts[kind] = self.counts.get(kind, 0) + 1
        line = json.dumps([self.seq, kind, payload], sort_keys=True, separators=(",", ":"), default=_default)
        self._h.update(line.encode())
        self._h.update(b"\n")
        if len(self.events) < self.keep:
            self.events.append((self.seq, kind, payload))
        return self.seq

    def digest(self):
        return "sha256:" + self._h.hexdigest()


def _default(o):
    import numpy as np
    if isinstance(o, (np.integer,)):
        return int(o)
    if isinstance(o, (np.floating,)):
        return fhex(o)
    if isinstance(o, np.ndarray):
        return arr_fp(o)
    if isinstance(o, (set, frozenset)):
        return sorted(o)
    raise TypeError(f"not loggable: {type(o)}")


class Violation:
    """One violated oracle.  `cls` is the stable key `C<id>:<oracle>[:<site>]`."""

    def __init__(self, cls, detail=None, seq=None):
        self.cls = cls
        self.detail = detail if detail is not None else {}
        self.seq = seq

    def to_json(self):
        return {"class": self.cls, "detail": self.detail, "seq": self.seq}


class Result:
    """What one executed scenario record produced."""

    def __init__(self):
        self.violations = []       # list[Violation]
        self.probes = {}           # reach counters
        self.faults = {}           # fault kinds that actually fired
        self.nontrivial = False
        self.signature = ""        # (config signature, schedule digest)
        self.state_keys = set()    # abstract states reached (property-specific measure)
        self.digest = ""
        self.events = {}
        self.harness_error = None

    def probe(self, name, k=1):
        self.probes[name] = self.probes.get(name, 0) + k

    def fault(self, name, k=1):
        self.faults[name] = self.faults.get(name, 0) + k

    def violate(self, cls, detail=None, seq=None):
        # keep the first violation of each class only (bounded output)
        for v in self.violations:
            if v.cls == cls:
                return
        self.violations.append(Violation(cls, detail, seq))

    def classes(self):
        return sorted({v.cls for v in self.violations})

    def to_json(self):
        return {"violations": [v.to_json() for v in self.violations], "probes": self.probes,
                "faults": self.faults, "nontrivial": self.nontrivial, "signature": self.signature,
                "state_keys": sorted(self.state_keys), "digest": self.digest, "events": self.events,
                "harness_error": self.harness_error}


def choice(rng, seq):
    return seq[rng.randrange(len(seq))]


def weighted(rng, pairs):
    """pairs: [(value, weight)]"""
    tot = sum(w for _, w in pairs)
    r = rng.random() * tot
    acc = 0.0
    for v, w in pairs:
        acc += w
        if r < acc:
            return v
    return pairs[-1][0]
